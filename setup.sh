#!/bin/bash
# MANIFEST.setup_cmd: warm the offline build caches the checks use (MIR dump target dir).
cd "$(dirname "$0")"
export CARGO_NET_OFFLINE=true
python3-vt - <<'PY'
import sys
sys.path.insert(0, 'engines/mirsmt')
import snapshot
mir, src, info = snapshot.mir_dump()
print('MIR dump ready:', mir, info)
PY
