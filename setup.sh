#!/bin/bash
# MANIFEST.setup_cmd: warm the offline build caches the checks use
#  (1) the MIR dump target dir, (2) the test target dir used by native replay (both overlay tests).
cd "$(dirname "$0")"
export CARGO_NET_OFFLINE=true
python3-vt - <<'PY'
import sys, os, subprocess
sys.path.insert(0, 'engines/mirsmt')
sys.path.insert(0, 'engines')
import snapshot
mir, src, info = snapshot.mir_dump()
print('MIR dump ready:', mir, info)
with snapshot.Lock('replay.lock'):
    s = snapshot.snapshot_src()
    os.makedirs(os.path.join(s, 'tests'), exist_ok=True)
    for f in ('verif_replay.rs', 'verif_grpc.rs'):
        open(os.path.join(s, 'tests', f), 'w').write(open(os.path.join('engines', 'replay', f)).read())
    env = dict(os.environ, CARGO_TARGET_DIR=os.path.join(snapshot.CACHE, 'target-test'), CARGO_NET_OFFLINE='true')
    r = subprocess.run(['cargo', 'test', '--offline', '--no-run', '--test', 'verif_replay', '--test', 'verif_grpc'], cwd=s, env=env,
                       capture_output=True, text=True)
    print('replay test build:', 'ok' if r.returncode == 0 else r.stderr[-2000:])
    for f in ('verif_replay.rs', 'verif_grpc.rs'):
        os.unlink(os.path.join(s, 'tests', f))
    sys.exit(0 if r.returncode == 0 else 1)
PY
# (3) the Kani target dir (one harness builds the whole crate for CBMC)
python3-vt - <<'PY'
import sys
sys.path.insert(0, 'engines'); sys.path.insert(0, 'engines/mirsmt')
import kani_engine
r = kani_engine.run_harness({'id': 'warm', 'harness': 'k4_paging_new', 'desc': 'warm-up', 'timeout_s': 1500}, {'tier': 'quick'})
print('kani warm-up:', r['verdict'], r['wall_s'], r.get('detail', ''))
PY
exit 0
