#!/bin/bash
# usage: refone.sh <R> <check> [ONLY]
SCR=/var/tmp/deltio-refone-$$
rsync -a --delete --exclude target --exclude .git /repo/ $SCR/
(cd $SCR && patch -p1 -s -i /verif/refactors/$1/patch.diff) || exit 2
cd /verif
VERIF_REPO=$SCR VERIF_ONLY="$3" VERIF_EVIDENCE_DIR=/var/tmp/deltio-refactor-evidence ./check $2 quick 2>&1 | grep -v conda
rm -rf $SCR
