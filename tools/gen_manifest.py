#!/usr/bin/env python3
"""Regenerates MANIFEST.json from tools/claims.json (which property is claimed, with what text)."""
import json, os
V = os.path.dirname(os.path.dirname(os.path.abspath(__file__)))
props = [json.loads(l) for l in open(os.path.join(V, 'properties.jsonl'))]
claims = json.load(open(os.path.join(V, 'tools', 'claims.json')))
m = {
    "version": 1,
    "setup_cmd": "./setup.sh",
    "hooks": claims['hooks'],
    "engines": claims['engines'],
    "checks": [], "not_applicable": [], "notes": claims.get('notes', 'see DESIGN.md'),
}
for e in m['engines']:
    e['serves_properties'] = []
for p in props:
    c = claims['claimed'].get(p['id'])
    if c:
        m['checks'].append({
            "property_id": p['id'], "quick_cmd": "./check %s quick" % p['id'], "thorough_cmd": "./check %s thorough" % p['id'],
            "evidence_file": "evidence/%s.json" % p['id'], "replay_cmd_template": "./check --replay {path}",
            "engine": c.get('engine', 'mirsmt'),
            "level_claimed": {"category": "model_checking", "text": c['text'], "design_ref": c.get('design_ref', 'DESIGN.md section 5 ' + p['id'])},
            "level_note": c['note'], "technique": c.get('technique', 'bounded symbolic execution of rustc MIR, obligations discharged by SMT (z3; cvc5 second opinion)')})
        for e in m['engines']:
            if e['name'] in c.get('engine', 'mirsmt'):
                e['serves_properties'].append(p['id'])
    else:
        m['not_applicable'].append({"property_id": p['id'], "reason": claims['not_applicable'].get(p['id'], 'check not built yet (work in progress; plan in DESIGN.md section 5)')})
json.dump(m, open(os.path.join(V, 'MANIFEST.json'), 'w'), indent=1)
print('claimed:', [c['property_id'] for c in m['checks']])
