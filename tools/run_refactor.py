#!/usr/bin/env python3
"""Runs all 19 quick checks against a behaviour-preserving refactor (a patch) on a scratch copy of /repo and reports, per check,
OK / exit 2 (inconclusive) / VIOLATION.  A VIOLATION here is a false alarm of the machinery (or a refactor that is not one)."""
import os, re, subprocess, sys
V = os.path.dirname(os.path.dirname(os.path.abspath(__file__)))
patch = os.path.abspath(sys.argv[1])
only = sys.argv[2:] or ['C%02d' % i for i in range(1, 20)]
SCR = '/var/tmp/deltio-refrepo-%d' % os.getpid()
subprocess.run(['rsync', '-a', '--delete', '--exclude', 'target', '--exclude', '.git', '/repo/', SCR + '/'], check=True)
r = subprocess.run(['patch', '-p1', '-s', '-i', patch], cwd=SCR, capture_output=True, text=True)
if r.returncode != 0:
    print('PATCH DOES NOT APPLY', r.stdout, r.stderr)
    sys.exit(2)
for c in only:
    env = dict(os.environ, VERIF_REPO=SCR, VERIF_EVIDENCE_DIR='/var/tmp/deltio-refactor-evidence')
    out = subprocess.run(['./check', c, 'quick'], cwd=V, env=env, capture_output=True, text=True).stdout
    viol = sorted(set(re.findall(r'\[(?:mirsmt|kani)\] (\S+)\s+violated', out)))
    inc = sorted(set(re.findall(r'\[(?:mirsmt|kani)\] (\S+)\s+inconclusive', out)))
    verdict = 'VIOLATION' if 'VIOLATION property=' in out else ('exit2' if 'INCONCLUSIVE' in out else 'OK')
    print(c, verdict, viol, inc, flush=True)
    if verdict == 'VIOLATION':
        for l in out.split('\n'):
            if l.startswith('    obligation'):
                print('   ', l[:300])
subprocess.run(['rm', '-rf', SCR])
