import sys, os, json
sys.path.insert(0, '/verif/engines'); sys.path.insert(0, '/verif/engines/mirsmt')
import snapshot, importlib
from context import Context
from framework import run_obligation
mir, srcdir, info = snapshot.mir_dump()
pid, sub = sys.argv[1], sys.argv[2]
ctx = Context(mir, srcdir)
mod = importlib.import_module('props.' + pid)
cfg = {'tier': sys.argv[3] if len(sys.argv) > 3 else 'quick', 'seed': 0, 'cvc5': False, 'query_timeout_ms': 60000}
for ob in mod.obligations(ctx, cfg):
    if sub not in ob.id: continue
    finals = set()
    orig = ob.post
    def post(ip, p, res, orig=orig):
        acts = res['acts']
        summ = tuple((a.name, a.state, a.polls, getattr(getattr(a, 'result', None), 'discr', None), len(getattr(a, 'items', []) or [])) for a in acts)
        n = res.get('notify')
        finals.add((summ, getattr(n, 'permit', None), getattr(n, 'gen', None)))
        return orig(ip, p, res)
    ob.post = post
    r = run_obligation(ctx, ob, cfg)
    print(ob.id, r.verdict, r.paths, len(finals))
    json.dump(sorted(map(repr, finals)), open('/tmp/finals-%s-%s.json' % (ob.id.replace('/', '_'), os.environ.get('VERIF_NO_POR', '0')), 'w'), indent=0)
