#!/bin/bash
# usage: seedrun.sh <seed> <check> [ONLY]  -> runs check on scratch copy with seed applied, full output
SCR=/var/tmp/deltio-seedrepo-$1
rsync -a --delete --exclude target --exclude .git /repo/ $SCR/
(cd $SCR && patch -p1 -s -i /verif/seeded/$1/patch.diff) || exit 2
cd /verif
VERIF_REPO=$SCR VERIF_ONLY="$3" VERIF_EVIDENCE_DIR=/var/tmp/deltio-seed-evidence ./check $2 ${TIER:-quick} 2>&1 | grep -v conda
rm -rf $SCR
