#!/bin/bash
# usage: mutrun.sh <file-under-repo> <sed-expr> <check> [ONLY]  -> ad-hoc mutation on a scratch copy (never /repo), full output
SCR=/var/tmp/deltio-mutrepo-$$
rsync -a --delete --exclude target --exclude .git /repo/ $SCR/
sed -i "$2" $SCR/$1
diff -u /repo/$1 $SCR/$1 | grep '^[+-][^+-]'
cd /verif
VERIF_REPO=$SCR VERIF_ONLY="$4" VERIF_EVIDENCE_DIR=/var/tmp/deltio-seed-evidence ./check $3 ${TIER:-quick} 2>&1 | grep -v conda | tail -${TAIL:-4} | cut -c1-300
rm -rf $SCR
