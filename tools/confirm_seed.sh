#!/bin/bash
# usage: tools/confirm_seed.sh <property-id> [<seed-name>]
# Confirms a seeded change in its scratch worktree /tmp/wt-<id>: with the patch the existing suite
# passes and the demo fails; without the patch the demo passes.  Then stores it under /verif/seeded/<name>/.
id="$1"; name="${2:-$1}"; wt=/tmp/wt-$id
export CARGO_NET_OFFLINE=true
cd $wt || exit 2
demo=$(ls tests/seeded_*.rs 2>/dev/null | head -1)
[ -f seeded/patch.diff ] || { echo "no patch"; exit 2; }
tname=$(basename "$demo" .rs)
log=/tmp/confirm-$name.log; : > $log
# state: patch applied (as left by the agent)?  normalise: reverse if applied, then apply.
git apply -R --check seeded/patch.diff 2>/dev/null && git apply -R seeded/patch.diff
# anything still differing under src is not part of the delivered patch (e.g. a hunk another agent's shared `git stash` dropped here): discard it
git status --short -- src | grep -q . && { echo "src dirty without patch: restoring pristine src" | tee -a $log; git checkout -- src; git clean -fdq -- src; }
echo "== without patch: demo" >> $log
timeout 1500 cargo test --offline --test $tname >> $log 2>&1; demo_clean=$?
git apply seeded/patch.diff || { echo "patch does not apply"; exit 2; }
echo "== with patch: demo" >> $log
timeout 1500 cargo test --offline --test $tname >> $log 2>&1; demo_patched=$?
echo "== with patch: existing suite" >> $log
mv $demo /tmp/$tname.rs.hold
timeout 1800 cargo test --workspace --no-fail-fast --offline >> $log 2>&1; suite=$?
passed=$(grep -E '^test result: ok' $log | tail -9 | awk '{s+=$4} END {print s}')
mv /tmp/$tname.rs.hold $demo
echo "demo_clean_exit=$demo_clean demo_patched_exit=$demo_patched suite_exit=$suite suite_passed=$passed" | tee -a $log
if [ $demo_clean -eq 0 ] && [ $demo_patched -ne 0 ] && [ $suite -eq 0 ]; then
  mkdir -p /verif/seeded/$name
  cp seeded/patch.diff /verif/seeded/$name/patch.diff
  cp $demo /verif/seeded/$name/$(basename $demo)
  python3 - "$name" "$id" "$passed" <<'PY'
import json,sys
name,pid,passed=sys.argv[1:4]
m=json.load(open('seeded/meta.json'))
m.update({'property':(pid if pid.startswith('C') else m.get('property')),'confirmed_by_me':{'demo_without_patch':'pass','demo_with_patch':'fail','existing_suite_with_patch':'pass (%s tests)'%passed,
  'ran':'tools/confirm_seed.sh %s in scratch worktree /tmp/wt-%s (cargo test --offline)'%(pid,pid)}})
json.dump(m,open('/verif/seeded/%s/meta.json'%name,'w'),indent=1)
PY
  echo CONFIRMED $name
else
  echo NOT-CONFIRMED $name
fi
