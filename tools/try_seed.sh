#!/bin/bash
# usage: tools/try_seed.sh <patch.diff> <property ids...>   (applies to /repo, runs quick checks, reverts)
patch="$(realpath "$1")"; shift
cd /repo || exit 2
git apply --check "$patch" || { echo "patch does not apply"; exit 2; }
git apply "$patch"
trap 'git -C /repo checkout -- . ' EXIT
cd /verif
export VERIF_EVIDENCE_DIR=/var/tmp/deltio-seed-evidence
for id in "$@"; do
  out=$(./check "$id" ${TIER:-quick} 2>&1 | grep -v conda); code=$?
  echo "== $id exit=$(echo "$out" | tail -1 | grep -q '^OK' && echo 0 || echo nonzero)"
  echo "$out" | grep -E 'VIOLATION|violated|INCONCLUSIVE|inconclusive|KNOWN|^OK' | cut -c1-260 | head -12
done
