#!/usr/bin/env python3
"""development aid: re-executes one path of an obligation from the decisions stored in a replay file and prints its effect log
usage: python3-vt tools/trace_path.py <property> <obligation id> <replay.json> [tier]"""
import sys, os, json, importlib
V = os.path.dirname(os.path.dirname(os.path.abspath(__file__)))
sys.path.insert(0, os.path.join(V, 'engines')); sys.path.insert(0, os.path.join(V, 'engines', 'mirsmt'))
import snapshot
from context import Context
from interp import Explorer, Path, Interp, run_to_end
pid, obid, rf = sys.argv[1:4]
tier = sys.argv[4] if len(sys.argv) > 4 else 'quick'
mir, srcdir, info = snapshot.mir_dump()
ctx = Context(mir, srcdir)
mod = importlib.import_module('props.' + pid)
ob = [o for o in mod.obligations(ctx, {'tier': tier}) if o.id == obid][0]
dec = json.load(open(rf))['decisions']
ex = Explorer()
p = Path(ex, list(dec))
ip = Interp(ctx, p, unroll=getattr(ob, 'unroll', 8))
ctx.cur_path = p
r = ob.body(ip, p)
if hasattr(r, '__next__'):
    r = run_to_end(r)
for e in p.log:
    print('  ', ' '.join(str(x)[:160] for x in e))
for it in ob.post(ip, p, r):
    f = it.formula
    print(type(it).__name__, it.label, p.check(f if it.__class__.__name__ == 'Cover' else __import__('z3').Not(f if not isinstance(f, bool) else __import__('z3').BoolVal(f))))
