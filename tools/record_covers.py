#!/usr/bin/env python3
"""Records, per tier and obligation, the vacuity witnesses (covers) that are reachable on the current (unchanged)
tree, from the evidence files of a full run: engines/mirsmt/expected_covers.json."""
import json, glob, os, sys
V = os.path.dirname(os.path.dirname(os.path.abspath(__file__)))
p = os.path.join(V, 'engines', 'mirsmt', 'expected_covers.json')
cur = json.load(open(p)) if os.path.exists(p) else {}
for f in sorted(glob.glob(os.path.join(V, 'evidence', 'C*.json'))):
    d = json.load(open(f))
    t = cur.setdefault(d['tier'], {})
    for o in d['coverage'].get('obligations_detail', []):
        t[o['id']] = sorted(k for k, v in o.get('covers', {}).items() if v == 'sat')
json.dump(cur, open(p, 'w'), indent=1, sort_keys=True)
print({k: len(v) for k, v in cur.items()})
