"""Runs a replay script against the real build: snapshot of /repo's working tree + overlaid
tests/verif_replay.rs, `cargo test` (dev profile; also --release in the thorough tier)."""
import json
import os
import re
import subprocess
import sys
import tempfile

HERE = os.path.dirname(os.path.abspath(__file__))
sys.path.insert(0, os.path.join(HERE, 'mirsmt'))
import snapshot  # noqa: E402

VERIF = os.path.dirname(HERE)


def run_script(ops, release=False, timeout=1500):
    """returns list of observation dicts (or raises)"""
    with snapshot.Lock('replay.lock'):
        src = snapshot.snapshot_src()
        os.makedirs(os.path.join(src, 'tests'), exist_ok=True)
        with open(os.path.join(HERE, 'replay', 'verif_replay.rs')) as f:
            code = f.read()
        with open(os.path.join(src, 'tests', 'verif_replay.rs'), 'w') as f:
            f.write(code)
        with tempfile.NamedTemporaryFile('w', suffix='.json', delete=False, dir=snapshot.SCRATCH) as fh:
            json.dump({'ops': ops}, fh)
            script = fh.name
        env = dict(os.environ)
        env['CARGO_TARGET_DIR'] = os.path.join(snapshot.CACHE, 'target-test')
        env['CARGO_NET_OFFLINE'] = 'true'
        env['VERIF_SCRIPT'] = script
        cmd = ['cargo', 'test', '--offline', '--test', 'verif_replay'] + (['--release'] if release else []) + \
              ['--', '--nocapture', '--test-threads', '1']
        try:
            r = subprocess.run(cmd, cwd=src, env=env, capture_output=True, text=True, timeout=timeout)
        finally:
            os.unlink(script)
            try:
                os.unlink(os.path.join(src, 'tests', 'verif_replay.rs'))
            except OSError:
                pass
        out = []
        for line in r.stdout.split('\n'):
            m = re.search(r'VERIF-OBS (.*)$', line)
            if m:
                out.append(json.loads(m.group(1)))
        return {'obs': out, 'exit': r.returncode, 'tail': (r.stdout[-1500:] + r.stderr[-1500:]) if r.returncode != 0 else ''}


def run_scenario(name, timeout=1500, lib=False):
    """gRPC-level scenario (tests/verif_grpc.rs overlay) or library-level scenario (verif_replay.rs)"""
    fname = 'verif_replay.rs' if lib else 'verif_grpc.rs'
    with snapshot.Lock('replay.lock'):
        src = snapshot.snapshot_src()
        with open(os.path.join(HERE, 'replay', fname)) as f:
            code = f.read()
        dst = os.path.join(src, 'tests', fname)
        with open(dst, 'w') as f:
            f.write(code)
        env = dict(os.environ)
        env['CARGO_TARGET_DIR'] = os.path.join(snapshot.CACHE, 'target-test')
        env['CARGO_NET_OFFLINE'] = 'true'
        env['VERIF_LIB_SCENARIO' if lib else 'VERIF_SCENARIO'] = name
        try:
            r = subprocess.run(['cargo', 'test', '--offline', '--test', fname[:-3], '--', '--nocapture', '--test-threads', '1'],
                               cwd=src, env=env, capture_output=True, text=True, timeout=timeout)
        finally:
            try:
                os.unlink(dst)
            except OSError:
                pass
        out = []
        for line in r.stdout.split('\n'):
            m = re.search(r'VERIF-OBS (.*)$', line)
            if m:
                out.append(json.loads(m.group(1)))
        return {'obs': out, 'exit': r.returncode, 'tail': (r.stdout[-1500:] + r.stderr[-1500:]) if r.returncode != 0 else ''}


def run(request, cfg):
    if 'scenario' in request:
        import judges
        rr = run_scenario(request['scenario'], lib=request.get('lib', False))
        verdict, detail = judges.JUDGES[request['judge']](request, rr)
        return {'reproduced': verdict, 'detail': detail, 'request': request, 'obs': rr['obs'][-12:], 'profile': 'dev'}
    return run_ops(request, cfg)


def run_ops(request, cfg):
    """request: {'ops': [...], 'judge': name, ...}; returns {'reproduced': bool, 'detail': str, 'request': request, 'obs': [...]}"""
    import judges
    rr = run_script(request['ops'], release=False)
    verdict, detail = judges.JUDGES[request['judge']](request, rr)
    res = {'reproduced': verdict, 'detail': detail, 'request': request, 'obs': rr['obs'][-12:], 'profile': 'dev'}
    if verdict and cfg.get('tier') == 'thorough':
        rr2 = run_script(request['ops'], release=True)
        v2, d2 = judges.JUDGES[request['judge']](request, rr2)
        res['release_profile_reproduced'] = v2
    return res
