// K2: AckId::parse (real core::str::parse::<u64>) on every byte string up to the bound: no panic, and the
// result agrees with the decimal reference the mirsmt string model uses.
use super::*;

fn reference(b: &[u8]) -> Option<u64> {
    let mut i = 0;
    if !b.is_empty() && b[0] == b'+' {
        i = 1;
    }
    if i >= b.len() {
        return None;
    }
    let mut v: u64 = 0;
    while i < b.len() {
        let c = b[i];
        if !(b'0'..=b'9').contains(&c) {
            return None;
        }
        v = v.checked_mul(10)?.checked_add((c - b'0') as u64)?;
        i += 1;
    }
    Some(v)
}

#[kani::proof]
#[kani::unwind(6)]
fn k2_ack_id_parse_matches_reference() {
    let bytes: [u8; 4] = kani::any();
    let len: usize = kani::any();
    kani::assume(len <= 4);
    let slice = &bytes[..len];
    if let Ok(s) = std::str::from_utf8(slice) {
        let got = AckId::parse(s).ok().map(|a| a.value);
        assert!(got == reference(slice));
        kani::cover!(got.is_some());
        kani::cover!(got.is_none() && len > 0);
    }
}

#[kani::proof]
fn k4_ack_id_next() {
    let v: u64 = kani::any();
    kani::assume(v < u64::MAX);
    assert!(AckId::new(v).next() == AckId::new(v + 1));
}
