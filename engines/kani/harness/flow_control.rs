// K5: FlowControl against the REAL tokio Notify, the real compiled wait_for_available_space future polled
// by hand with counting wakers.  Cross-checks the Notify contract used by the Tier 4 engine (C19).
use super::*;
use std::future::Future;
use std::pin::pin;
use std::sync::atomic::AtomicUsize;
use std::task::{Context, Poll, RawWaker, RawWakerVTable, Waker};

static WAKES: [AtomicUsize; 2] = [AtomicUsize::new(0), AtomicUsize::new(0)];

fn vt_clone(p: *const ()) -> RawWaker {
    RawWaker::new(p, &VTABLE)
}
fn vt_wake(p: *const ()) {
    let c = unsafe { &*(p as *const AtomicUsize) };
    c.fetch_add(1, Ordering::SeqCst);
}
fn vt_drop(_: *const ()) {}
static VTABLE: RawWakerVTable = RawWakerVTable::new(vt_clone, vt_wake, vt_wake, vt_drop);

fn waker(i: usize) -> Waker {
    unsafe { Waker::from_raw(RawWaker::new(&WAKES[i] as *const AtomicUsize as *const (), &VTABLE)) }
}

// parking_lot's contended slow paths reach thread-locals with destructors, which the Kani compiler
// cannot translate; a sequential harness never contends, so reaching one is reported as a failure.
fn lock_slow_stub(_m: &parking_lot::RawMutex, _t: Option<std::time::Instant>) -> bool {
    panic!("contended lock in a sequential harness")
}
fn unlock_slow_stub(_m: &parking_lot::RawMutex, _f: bool) {
    panic!("contended unlock in a sequential harness")
}

#[kani::proof]
#[kani::unwind(4)]
#[kani::stub(parking_lot::RawMutex::lock_slow, lock_slow_stub)]
#[kani::stub(parking_lot::RawMutex::unlock_slow, unlock_slow_stub)]
fn k5_two_parked_waiters_released_by_one_dec() {
    let fc = create(2, 2);
    fc.inc(2, 2); // saturated
    let (w0, w1) = (waker(0), waker(1));
    let mut cx0 = Context::from_waker(&w0);
    let mut cx1 = Context::from_waker(&w1);
    let mut f0 = pin!(fc.wait_for_available_space());
    let mut f1 = pin!(fc.wait_for_available_space());
    assert!(f0.as_mut().poll(&mut cx0).is_pending());
    assert!(f1.as_mut().poll(&mut cx1).is_pending());
    let db: u64 = kani::any();
    let dm: u64 = kani::any();
    kani::assume(db <= 2 && dm <= 2);
    fc.dec(db, dm);
    // notify_waiters wakes every registered waiter, whether or not capacity was freed
    assert!(WAKES[0].load(Ordering::SeqCst) == 1);
    assert!(WAKES[1].load(Ordering::SeqCst) == 1);
    let freed = db >= 1 && dm >= 1;
    let r0 = f0.as_mut().poll(&mut cx0);
    let r1 = f1.as_mut().poll(&mut cx1);
    // a re-poll is Ready exactly when both counts are below their limits
    assert!(r0.is_ready() == freed);
    assert!(r1.is_ready() == freed);
    assert!(fc.has_available_space() == freed);
    kani::cover!(freed);
    kani::cover!(!freed);
}

#[kani::proof]
#[kani::unwind(4)]
#[kani::stub(parking_lot::RawMutex::lock_slow, lock_slow_stub)]
#[kani::stub(parking_lot::RawMutex::unlock_slow, unlock_slow_stub)]
fn k5_notified_created_before_notify_waiters_sees_it() {
    // the clause of the Notify contract the Tier 4 engine depends on: a Notified future observes a
    // notify_waiters() made after its creation even if it has not been polled yet
    let n = Notify::new();
    let w0 = waker(0);
    let mut cx0 = Context::from_waker(&w0);
    let mut early = pin!(n.notified());
    n.notify_waiters();
    let mut late = pin!(n.notified());
    assert!(early.as_mut().poll(&mut cx0).is_ready());
    assert!(late.as_mut().poll(&mut cx0).is_pending()); // no permit is stored by notify_waiters
}

#[kani::proof]
fn k4_has_available_space() {
    let (mb, mm, b, m): (u64, u64, u64, u64) = (kani::any(), kani::any(), kani::any(), kani::any());
    let fc = FlowControl {
        max_outstanding_bytes: mb,
        max_outstanding_messages: mm,
        outstanding_bytes: AtomicU64::new(b),
        outstanding_messages: AtomicU64::new(m),
        notifier: Notify::new(),
    };
    assert!(fc.has_available_space() == (m < mm && b < mb));
}
