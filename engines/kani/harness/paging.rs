// K4: Paging::new / size / to_skip / next_page_from_slice_result on the compiled code, all usize.
use super::*;

#[kani::proof]
fn k4_paging_new() {
    let size: usize = kani::any();
    let off: Option<usize> = kani::any();
    let p = Paging::new(size, off);
    let eff = if size == 0 { 20 } else if size > 1000 { 1000 } else { size };
    assert!(p.size() == eff);
    assert!(p.size() >= 1 && p.size() <= 1000);
    assert!(p.to_skip() == off.unwrap_or(0));
}

#[kani::proof]
#[kani::unwind(5)]
fn k4_next_page() {
    let size: usize = kani::any();
    kani::assume(size >= 1 && size <= 1000);
    let off: usize = kani::any();
    kani::assume(off <= usize::MAX - 4);
    let p = Paging::new(size, Some(off));
    let items = [0u8; 4];
    let n: usize = kani::any();
    kani::assume(n <= 4);
    let next = p.next_page_from_slice_result(&items[..n]);
    assert!(next.offset() == if n > 0 { Some(off + n) } else { None });
    assert!(next.size() == size);
}
