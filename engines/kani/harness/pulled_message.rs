// Kani harnesses overlaid as a child module of src/subscriptions/pulled_message.rs (cfg(kani) only).
// K7: AckDeadline::new on the real std/tokio Instant and Duration - cross-check of the integer-mode
// time contracts used by the mirsmt engine (C04.a).
use super::*;

#[repr(C)]
struct Timespec {
    tv_sec: i64,
    tv_nsec: u32,
}

// std::time::Instant::now is clock_gettime (FFI): replaced by an arbitrary reading.
fn now_stub() -> std::time::Instant {
    let ts = Timespec { tv_sec: kani::any(), tv_nsec: kani::any() };
    kani::assume(ts.tv_sec >= 0 && ts.tv_sec < 1_000_000 && ts.tv_nsec < 1_000_000_000);
    unsafe { std::mem::transmute::<Timespec, std::time::Instant>(ts) }
}

#[kani::proof]
#[kani::unwind(3)]
#[kani::stub(std::time::Instant::now, now_stub)]
fn k7_ack_deadline_window() {
    let epoch: Instant = *EPOCH; // first reading of the arbitrary clock
    let off_ns: u64 = kani::any();
    kani::assume(off_ns < 4_000_000_000); // stated bound: 4 s window after EPOCH
    let t = epoch.checked_add(Duration::from_nanos(off_ns)).unwrap();
    let d = AckDeadline::new(&t);
    // never 1 us or more early, less than 100 ms late (Instant comparisons only: cheap for the SAT back end)
    assert!(d.time() + Duration::from_micros(1) > t);
    assert!(d.time() < t + Duration::from_millis(100));
    kani::cover!(d.time() < t); // sub-microsecond early deadlines exist
}
