// Kani harnesses overlaid as a child module of src/subscriptions/pulled_message.rs (cfg(kani) only).
// K7: AckDeadline::new on the real std/tokio Instant and Duration - cross-check of the integer-mode
// time contracts used by the mirsmt engine (C04.a).
use super::*;

#[repr(C)]
struct Timespec {
    tv_sec: i64,
    tv_nsec: u32,
}

// std::time::Instant::now is clock_gettime (FFI): replaced by an arbitrary reading.
fn now_stub() -> std::time::Instant {
    let ts = Timespec { tv_sec: kani::any(), tv_nsec: kani::any() };
    kani::assume(ts.tv_sec >= 0 && ts.tv_sec < 1_000_000_000 && ts.tv_nsec < 1_000_000_000);
    unsafe { std::mem::transmute::<Timespec, std::time::Instant>(ts) }
}

#[kani::proof]
#[kani::unwind(3)]
#[kani::stub(std::time::Instant::now, now_stub)]
fn k7_ack_deadline_window() {
    let epoch: Instant = *EPOCH; // first reading of the arbitrary clock
    let off_ns: u64 = kani::any();
    kani::assume(off_ns < 4_000_000_000); // stated bound: 4 s window after EPOCH
    let t = epoch.checked_add(Duration::from_nanos(off_ns)).unwrap();
    let d = AckDeadline::new(&t);
    let dd = d.time().duration_since(epoch).as_nanos() as u64;
    assert!(dd + 1000 > off_ns); // never 1 us or more early
    assert!(dd < off_ns + 100_000_000); // less than 100 ms late
    assert!(dd % 1000 == 0); // whole microseconds after EPOCH
    let us = off_ns / 1000;
    assert!(dd == (us + us % 100_000) * 1000); // the formula the integer model uses
    kani::cover!(dd < off_ns); // sub-microsecond early deadlines exist
}
