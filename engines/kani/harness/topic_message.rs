// K4: MessageId::new on the compiled code, all u32 x u32.
use super::*;

#[kani::proof]
fn k4_message_id_new() {
    let a: u32 = kani::any();
    let b: u32 = kani::any();
    let id = MessageId::new(a, b);
    assert!(id.value == (a as u64) * 4_294_967_296 + (b as u64));
    let c: u32 = kani::any();
    let d: u32 = kani::any();
    // injective: distinct (topic, counter) pairs give distinct ids
    if (a, b) != (c, d) {
        assert!(MessageId::new(c, d).value != id.value);
    }
}
