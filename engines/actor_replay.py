"""Native replay of actor-level counterexamples: builds, from the solver's model of a subscription
state and a step, a script for tests/verif_replay.rs that constructs an order-equivalent state
through the public API (publish / pull / modify under the paused clock), performs the step and
dumps what is observable; a reference model of a subscription (RefSub) says what a correct
implementation would show.  A difference = the counterexample reproduces on the real build."""

TOPIC = 'projects/p/topics/t'
SUB = 'projects/p/subscriptions/s'


def round_deadline_us(t_us):
    return t_us + (t_us % 100_000)


class RefSub:
    """reference semantics of one subscription at the level of the public API"""

    def __init__(self, ack_deadline_s):
        self.ackdl = max(10, ack_deadline_s)
        self.backlog = []
        self.out = {}          # ack -> [data, deadline_us]
        self.next = 1
        self.permit = False
        self.now = 0           # us since EPOCH (= start of the test: paused clock)
        self.next_data = 1

    def _expire(self):
        due = sorted((d, a) for a, (_, d) in self.out.items() if d <= self.now)
        for d, a in due:
            self.backlog.append(self.out.pop(a)[0])
        if due and self.backlog:
            self.permit = True

    def apply(self, op):
        k = op['op']
        if k in ('create_topic', 'create_subscription', 'delete_topic'):
            return {'ok': True}
        if k == 'publish':
            ids = list(range(self.next_data, self.next_data + op['count']))
            self.next_data += op['count']
            self.backlog += ids
            self.permit = True
            return {'data_ids': ids}
        if k == 'pull':
            n = len(self.backlog)
            mx = op['max']
            cap = max(1, min(mx, max(n % 65536, 1000)))
            kk = 0 if n == 0 else min(n, cap)
            msgs = []
            dl = round_deadline_us(self.now + self.ackdl * 1_000_000)
            for _ in range(kk):
                d = self.backlog.pop(0)
                self.out[self.next] = [d, dl]
                msgs.append({'data': d, 'ack': str(self.next)})
                self.next += 1
            if self.backlog:
                self.permit = True
            return {'messages': msgs}
        if k == 'ack':
            for a in op['ids']:
                self.out.pop(a, None)
            return {'ok': True}
        if k == 'modify':
            for m in op['mods']:
                a = m['id']
                if a not in self.out:
                    continue
                if m.get('secs', 0) > 0:
                    self.out[a][1] = round_deadline_us(self.now + m['secs'] * 1_000_000)
                else:
                    self.backlog.append(self.out.pop(a)[0])
            if self.backlog:
                self.permit = True
            return {'ok': True}
        if k == 'advance_ms':
            self.now += op['ms'] * 1000
            self._expire()
            return {}
        if k == 'advance_abs_ms':
            if op['ms'] * 1000 > self.now:
                self.now = op['ms'] * 1000
            self._expire()
            return {}
        if k == 'advance_to_deadline':
            if op['ack'] in self.out:
                t = self.out[op['ack']][1] + op.get('offset_ms', 0) * 1000
                if t > self.now:
                    self.now = t
            self._expire()
            return {}
        if k == 'stats':
            return {'outstanding': len(self.out), 'backlog': len(self.backlog)}
        if k == 'signal':
            r = self.permit
            self.permit = False
            return {'ready': r}
        raise ValueError(k)


def build_script(ob_id, info, step):
    """info: state_info dict (+ step arguments) from ActorStep.model_info; step: (kind, args)"""
    if info.get('deleted'):
        return None
    O = sorted(info.get('outstanding', []), key=lambda d: d['ack'])
    B = info.get('backlog', [])
    ackmap = {d['ack']: i + 1 for i, d in enumerate(O)}
    ops = [{'op': 'create_topic', 'name': TOPIC},
           {'op': 'create_subscription', 'name': SUB, 'topic': TOPIC, 'ack_deadline_s': max(10, int(info.get('ack_deadline_s', 10)))}]
    kind, args = step
    # all deadline values that have to be ordered: existing ones and new ones of a modify step
    dvals = sorted(set([d['deadline_ns'] for d in O] + [m['deadline_ns'] for m in args.get('mods', []) if m.get('extend')]))
    rank = {v: i for i, v in enumerate(dvals)}
    staggered = kind == 'expire' and O
    if staggered:
        # Expiry scenarios: keep the metric structure of the deadlines (equal / closer than the 100 ms rounding
        # window / far apart).  Deliveries are re-numbered in (deadline, ack) order - the order take_expired uses -
        # and handed out by staggered pulls: same deadline -> one pull, gap < 100 ms -> 20 ms later, else 10 s later.
        O = sorted(O, key=lambda d: (d['deadline_ns'], d['ack']))
        ackmap = {d['ack']: i + 1 for i, d in enumerate(O)}
        ops.append({'op': 'publish', 'topic': TOPIC, 'count': len(O)})
        groups = []
        for d in O:
            if groups and groups[-1][0]['deadline_ns'] == d['deadline_ns']:
                groups[-1].append(d)
            else:
                groups.append([d])
        t_ms = 0
        for gi, g in enumerate(groups):
            if gi > 0:
                gap = g[0]['deadline_ns'] - groups[gi - 1][0]['deadline_ns']
                t_ms += 20 if gap < 100_000_000 else 10_000
                ops.append({'op': 'advance_abs_ms', 'ms': t_ms})
            ops.append({'op': 'pull', 'sub': SUB, 'max': len(g)})
    elif O:
        ops.append({'op': 'publish', 'topic': TOPIC, 'count': len(O)})
        ops.append({'op': 'pull', 'sub': SUB, 'max': len(O)})
        if len(dvals) > 1 or kind in ('modify', 'expire'):
            ops.append({'op': 'modify', 'sub': SUB, 'mods': [{'id': ackmap[d['ack']], 'secs': 30 + 10 * rank[d['deadline_ns']]} for d in O]})
    if B:
        ops.append({'op': 'publish', 'topic': TOPIC, 'count': len(B)})
    if info.get('topic_alive') is False:
        # the state has a dead topic: delete it once the state is built (the subscription stays and keeps what it holds)
        ops.append({'op': 'delete_topic', 'name': TOPIC})
        if kind == 'post':
            return None
    ops.append({'op': 'signal', 'sub': SUB})
    unknown = {}

    def real(a):
        if a in ackmap:
            return ackmap[a]
        if a not in unknown:
            unknown[a] = 9000 + len(unknown)
        return unknown[a]
    if kind == 'pull':
        ops.append({'op': 'pull', 'sub': SUB, 'max': int(args['max_count'])})
    elif kind == 'ack':
        ops.append({'op': 'ack', 'sub': SUB, 'ids': [real(a) for a in args['ids']]})
    elif kind == 'modify':
        ops.append({'op': 'modify', 'sub': SUB,
                    'mods': [{'id': real(m['ack']), 'secs': (30 + 10 * rank[m['deadline_ns']]) if m.get('extend') else 0} for m in args['mods']]})
    elif kind == 'post':
        ops.append({'op': 'publish', 'topic': TOPIC, 'count': int(args['count'])})
    elif kind == 'expire':
        now = args['now_ns']
        le = [d for d in O if d['deadline_ns'] <= now]
        if le:
            last = max(le, key=lambda d: (d['deadline_ns'], d['ack']))
            exact = last['deadline_ns'] == now
            ops.append({'op': 'advance_to_deadline', 'sub': SUB, 'ack': ackmap[last['ack']], 'offset_ms': 0 if exact else 1})
        elif O:
            first = min(O, key=lambda d: (d['deadline_ns'], d['ack']))
            ops.append({'op': 'advance_to_deadline', 'sub': SUB, 'ack': ackmap[first['ack']], 'offset_ms': -1})
    else:
        return None
    ops += [{'op': 'signal', 'sub': SUB}, {'op': 'stats', 'sub': SUB}, {'op': 'pull', 'sub': SUB, 'max': 1000}]
    # timeline probe: just after each deadline of the scenario, what has become available again?
    if not staggered:
        for r in range(len(dvals)):
            ops += [{'op': 'advance_abs_ms', 'ms': 30_000 + 10_000 * r + 500}, {'op': 'pull', 'sub': SUB, 'max': 1000}]
    ops += [{'op': 'advance_ms', 'ms': 2_000_000}, {'op': 'pull', 'sub': SUB, 'max': 1000}, {'op': 'stats', 'sub': SUB}]
    return {'judge': 'actor_script', 'ops': ops, 'ack_deadline_s': max(10, int(info.get('ack_deadline_s', 10)))}


def judge_actor_script(req, rr):
    ref = RefSub(req['ack_deadline_s'])
    obs = rr['obs']
    if len(obs) != len(req['ops']):
        if rr['exit'] != 0 and obs:
            return True, 'the real build stopped after %d of %d operations: %s' % (len(obs), len(req['ops']), rr['tail'][-400:].replace('\n', ' | '))
        return False, 'no/partial observation (exit %s) %s' % (rr['exit'], rr['tail'][-300:])
    for i, (op, o) in enumerate(zip(req['ops'], obs)):
        exp = ref.apply(op)
        for k, v in exp.items():
            got = o.get(k)
            if k == 'messages':
                got = [{'data': m['data'], 'ack': m['ack']} for m in (got or [])]
            if got != v:
                return True, 'operation %d %s: the real build shows %s = %r, a correct subscription shows %r' % (i, op['op'], k, got, v)
    return False, 'the real build behaves like the reference on this scenario'
