"""Driver: ./check <ID> [quick|thorough]   /   ./check --replay <path>

exit 0  every obligation discharged, every vacuity witness reachable
exit 1  after `VIOLATION property=<id> replay=<path>` for a reproduced counterexample
        that known_findings.json does not list
exit 2  inconclusive (solver unknown/timeout, unsupported construct, non-reproducing
        counterexample, build failure): never a pass
"""
import importlib
import json
import os
import sys
import time

HERE = os.path.dirname(os.path.abspath(__file__))
VERIF = os.path.dirname(HERE)
EVDIR = os.environ.get('VERIF_EVIDENCE_DIR') or os.path.join(VERIF, 'evidence')   # seed runs write elsewhere
sys.path.insert(0, os.path.join(HERE, 'mirsmt'))
sys.path.insert(0, HERE)

import snapshot  # noqa: E402


def load_known():
    p = os.path.join(VERIF, 'known_findings.json')
    if not os.path.exists(p):
        return []
    return json.load(open(p))['findings']


def main():
    args = sys.argv[1:]
    if args and args[0] == '--replay':
        import replay
        sys.exit(replay.replay_file(args[1]))
    if not args:
        print('usage: check <ID> [quick|thorough]')
        sys.exit(2)
    pid = args[0]
    tier = args[1] if len(args) > 1 else os.environ.get('VERIF_TIER', 'quick')
    if tier not in ('quick', 'thorough'):
        tier = 'quick'
    seed = int(os.environ.get('VERIF_SEED', '0') or 0)
    t0 = time.time()
    cfg = {'tier': tier, 'seed': seed, 'cvc5': tier == 'thorough',
           'query_timeout_ms': 60000 if tier == 'quick' else 600000}
    mod = importlib.import_module('props.' + pid)
    rdir = os.path.join(EVDIR, 'replays')
    if os.path.isdir(rdir):
        for f in os.listdir(rdir):
            if f.startswith(pid + '-'):
                os.unlink(os.path.join(rdir, f))
    evidence = {
        'property_id': pid, 'tier': tier, 'seed': seed, 'level': 'model_checking',
        'coverage': {}, 'assumptions': [], 'wall_s': 0.0, 'violations': 0,
    }
    status = 0
    lines = []
    results = []
    kani_results = []
    notes = []
    try:
        mir, srcdir, info = snapshot.mir_dump()
    except Exception as e:
        print('INCONCLUSIVE property=%s build/MIR dump failed: %s' % (pid, e))
        write_evidence(pid, evidence, t0, results, kani_results, None, ['MIR dump failed: %s' % e], cfg, mod)
        sys.exit(2)
    from context import Context
    from framework import run_obligation
    ctx = Context(mir, srcdir)
    obs = mod.obligations(ctx, cfg)
    only = os.environ.get('VERIF_ONLY')          # development aid: run a subset of the obligations (never used by MANIFEST commands)
    if only:
        obs = [o for o in obs if only in o.id]
    expected = {}
    ecp = os.path.join(VERIF, 'engines', 'mirsmt', 'expected_covers.json')
    if os.path.exists(ecp):
        expected = json.load(open(ecp)).get(tier, {})
    for ob in obs:
        try:
            r = run_obligation(ctx, ob, cfg)
        except Exception as e:      # a harness that does not fit the (changed) code any more: this obligation is inconclusive, the others still run
            import traceback
            from framework import ObResult
            r = ObResult(ob)
            r.ob = ob
            r.verdict = 'inconclusive'
            r.inconclusive.append('internal error in the harness: %s: %s (%s)' % (type(e).__name__, e, traceback.format_exc().strip().split('\n')[-3].strip()[:160]))
        # vacuity guard across versions of the machinery: every witness that was reachable when the
        # obligation was registered must still be reachable (unless the obligation already reports a violation)
        missing = [c for c in expected.get(ob.id, []) if r.covers.get(c) != 'sat']
        if missing and not r.violations:
            for c in missing:
                r.inconclusive.append('vacuity: witness %r was reachable when this obligation was registered and is not any more' % c)
            r.verdict = 'inconclusive'
        results.append(r)
        print('  [%s] %-8s %-12s paths=%d queries=%d %.2fs  %s' % (
            'mirsmt', r.id, r.verdict, r.paths, r.queries, r.wall_s, r.desc[:70]))
        for inc in r.inconclusive:
            print('      inconclusive: %s' % inc)
    if hasattr(mod, 'kani_harnesses'):
        import kani_engine
        for h in mod.kani_harnesses(cfg):
            kr = kani_engine.run_harness(h, cfg)
            kani_results.append(kr)
            print('  [%s] %-8s %-12s %.1fs  %s' % ('kani', kr['id'], kr['verdict'], kr['wall_s'], kr['desc'][:70]))
    if hasattr(mod, 'notes'):
        notes = mod.notes(ctx, cfg, results)
        for n in notes:
            print('NOTE: property=%s %s' % (pid, n))

    # ---- counterexamples: replay, then match against the known findings
    known = [k for k in load_known() if k['property'] == pid]
    import replay
    nviol = 0
    inconclusive = any(r.verdict == 'inconclusive' for r in results) or \
        any(k['verdict'] == 'inconclusive' for k in kani_results)
    reported_known = set()
    for r in results:
        for v in r.violations:
            rep = replay.replay_violation(pid, r, v, mod, cfg)
            v['replay'] = {k: rep[k] for k in rep if k != 'log'}
            if rep['status'] == 'not-reproduced':
                inconclusive = True
                print('INCONCLUSIVE property=%s obligation=%s counterexample did not reproduce on the real code: %s'
                      % (pid, r.id, rep.get('detail', '')))
                continue
            kf = replay.match_known(known, r.id, v, rep)
            if kf is not None:
                if kf['status'] == 'known':
                    key = (kf['obligation'], kf['classifier'])
                    if key not in reported_known:
                        reported_known.add(key)
                        print('KNOWN-FINDING: property=%s %s' % (pid, kf['what']))
                    v['known_finding'] = kf['what']
                    continue
            nviol += 1
            print('VIOLATION property=%s replay=%s' % (pid, rep['path']))
            print('    obligation %s (%s): %s  %s' % (r.id, v['label'], v['what'], json.dumps(v.get('info', {}))[:400]))
    for kr in kani_results:
        if kr['verdict'] == 'violated':
            rep = kr.get('replay', {})
            if rep.get('status') == 'not-reproduced':
                inconclusive = True
                print('INCONCLUSIVE property=%s harness=%s Kani counterexample did not reproduce' % (pid, kr['id']))
                continue
            nviol += 1
            print('VIOLATION property=%s replay=%s' % (pid, rep.get('path', kr.get('log', ''))))
            print('    kani harness %s: %s' % (kr['id'], kr.get('detail', '')[:300]))
    evidence['violations'] = nviol
    write_evidence(pid, evidence, t0, results, kani_results, ctx, notes, cfg, mod, info)
    if nviol:
        sys.exit(1)
    if inconclusive:
        print('INCONCLUSIVE property=%s (see evidence/%s.json)' % (pid, pid))
        sys.exit(2)
    print('OK property=%s tier=%s obligations=%d wall=%.1fs' % (pid, tier, len(results) + len(kani_results), time.time() - t0))
    sys.exit(0)


def write_evidence(pid, ev, t0, results, kani_results, ctx, notes, cfg, mod, info=None):
    obs = [r.to_json() for r in results]
    queries = sum(r.queries for r in results)
    nontrivial = sum(1 for r in results if r.ok_paths + r.panics_expected > 0) + \
        sum(1 for k in kani_results if k['verdict'] == 'holds')
    samples = []
    for r in results[:8]:
        samples.append({'obligation': r.id, 'what': r.desc, 'bounds': r.bounds, 'paths': r.paths,
                        'claims_discharged': r.claims_discharged, 'covers': r.covers})
    for k in kani_results[:4]:
        samples.append({'harness': k['id'], 'what': k['desc'], 'verdict': k['verdict'], 'checks': k.get('checks')})
    cov = {
        'engine': 'mirsmt (symbolic execution of rustc MIR, z3 %s)%s' % (
            __import__('z3').get_version_string(), ' + kani/CBMC' if kani_results else ''),
        'mir_dump': info or {},
        'functions_encoded': sorted(
            [{'fn': n, 'blocks': b, 'sha1': h} for n, (b, h) in (ctx.encoded.items() if ctx else [])],
            key=lambda x: x['fn']),
        'obligations_detail': obs,
        'kani': kani_results,
        'states': max(1, sum(r.paths for r in results)),
        'transitions': max(1, sum(r.queries for r in results)),
        'traces_validated_against_impl': sum(1 for r in results for v in r.violations
                                             if v.get('replay', {}).get('status') == 'reproduced'),
        'evaluations': max(1, queries + sum(k.get('checks', 0) or 0 for k in kani_results)),
        'distinct_nontrivial': nontrivial,
        'rule': 'evaluations = solver queries discharged (feasibility + post-condition + vacuity queries); '
                'distinct_nontrivial = obligations with at least one feasible completed path (or a passing Kani harness); '
                'states = symbolic paths explored; transitions = solver queries',
        'samples': samples or [{'note': 'no obligation ran'}],
        'obligations': len(results) + len(kani_results),
        'discharged': sum(1 for r in results if r.verdict == 'holds') + sum(1 for k in kani_results if k['verdict'] == 'holds'),
        'solver_time_s': round(sum(r.solver_s for r in results), 3),
        'models_used': sorted(ctx.models.used.keys()) if ctx else [],
        'outside': getattr(mod, 'OUTSIDE', []),
        'notes': notes,
        'exhaustive': False,
    }
    ev['coverage'] = cov
    ev['assumptions'] = getattr(mod, 'ASSUMPTIONS', []) + COMMON_ASSUMPTIONS
    ev['wall_s'] = round(time.time() - t0, 2)
    os.makedirs(EVDIR, exist_ok=True)
    with open(os.path.join(EVDIR, pid + '.json'), 'w') as f:
        json.dump(ev, f, indent=1, default=str)


COMMON_ASSUMPTIONS = [
    'A5: std/tokio/parking_lot/tonic callees are contract models (coverage.models_used lists every one this run used)',
    'MIR from nightly rustc (-C overflow-checks=on, debug-assertions=off) is assumed to agree with the stable build of the same source',
    'integers are mathematical integers with explicit wrap at casts / wrapping ops and overflow asserts as in the MIR',
]

if __name__ == '__main__':
    try:
        main()
    except SystemExit:
        raise
    except BaseException as e:   # a crash of the machinery is never a verdict
        import traceback
        traceback.print_exc()
        print('INCONCLUSIVE internal error: %r' % (e,))
        sys.exit(2)
