"""Per-run shared context: MIR dump, source index, model registry, evidence."""
import re
from mirparse import Dump
from srcindex import SrcIndex
from interp import FnIndex, last_type_name


class Models:
    def __init__(self, index):
        self.index = index
        self.table = {}
        self.used = {}

    def register(self, key, fn):
        self.table[key] = fn

    def reg(self, *keys):
        def deco(fn):
            for k in keys:
                self.table[k] = fn
            return fn
        return deco

    def lookup(self, pc, args):
        method = pc['method']
        if pc['qself'] is not None:
            tr = pc['trait'].split('::')[-1] if pc['trait'] else None
            ty = last_type_name(pc['qself'])
            # a hand-written impl in the crate wins over the generic model
            c = self.index.methods.get((ty, tr, method))
            if c and not c[0].impl_info[2]:
                return None
            keys = ['<%s as %s>::%s' % (ty, tr, method), '<%s>::%s' % (tr, method)] if tr else \
                   ['%s::%s' % (ty, method)]
        else:
            segs = pc['segs']
            keys = ['%s::%s' % (segs[-1], method)] if segs else []
            if len(segs) >= 2:
                keys.insert(0, '%s::%s::%s' % (segs[-2], segs[-1], method))
            keys.append(method if not segs else '::' + method)
        for k in keys:
            h = self.table.get(k)
            if h is not None:
                self.used[k] = self.used.get(k, 0) + 1
                return h
        return None


class Context:
    def __init__(self, mir_path, src_root, trace=False):
        self.dump = Dump(mir_path)
        self.src = SrcIndex(src_root)
        self.index = FnIndex(self.dump, self.src)
        self.models = Models(self.index)
        self.trace = trace
        self.encoded = {}
        self.callee_cache = {}
        self.const_cache = {}
        self.const_models = {}
        self.static_models = {}
        self.adt_models = {}
        self.lazy_wrap = False
        import models_core, models_time, models_coll, models_str, models_sync, models_bytes, models_async, t4
        for m in (models_core, models_time, models_coll, models_str, models_sync, models_bytes, models_async, t4):
            m.install(self)

    def fn(self, type_name, method, trait=None, hint=None):
        """look up a MIR function of the crate by (self type, method)"""
        c = self.index.methods.get((type_name, trait, method)) or self.index.methods.get((type_name, '*', method))
        if not c:
            raise KeyError('no MIR for %s::%s' % (type_name, method))
        if hint:
            c2 = [f for f in c if hint in f.name or hint in f.impl_info[3]]
            c = c2 or c
        return c[0]

    def free_fn(self, name):
        c = self.index.free.get(name.split('::')[-1])
        if not c:
            raise KeyError('no MIR for fn ' + name)
        want = name.split('::')
        good = [f for f in c if f.name.split('::')[-len(want):] == want]
        return (good or c)[0]

    def closure_of(self, fn_name_suffix):
        for name, f in self.dump.functions.items():
            if name.endswith(fn_name_suffix):
                return f
        raise KeyError(fn_name_suffix)
