"""Contract models of std::time / tokio::time in integer nanoseconds.

Instant and Duration are mathematical integers (ns).  `Instant::now` returns a
fresh value >= every earlier reading and >= EPOCH.  Cross-checked against the
real std by Kani harness K7 (see DESIGN 3.2)."""
import z3
from values import *
from interp import bool_s, mk_int
from models_core import some, NONE, opt_sym, deref_all

NS = 1_000_000_000
U64_MAX = (1 << 64) - 1


def instant(t):
    return S(t, 'Instant')


def duration(t):
    return S(t, 'Duration')


def epoch_term():
    return z3.Int('EPOCH')


def clock_now(ip):
    p = ip.path
    t = p.fresh('now')
    last = getattr(p, 'clock_last', None)
    p.assume(t >= (last if last is not None else epoch_term()))
    p.assume(epoch_term() >= 0)
    # stated time bound: every clock reading is < 2^62 us (146 000 years) after EPOCH
    p.assume(t - epoch_term() < (1 << 62) * 1000)
    floor = getattr(p, 'clock_floor', None)
    if floor is not None:
        p.assume(t >= floor)                      # a history obligation let time pass
    span = getattr(p, 'clock_span_ns', None)
    readings0 = getattr(p, 'clock_readings', [])
    if span is not None and readings0:
        base = getattr(p, 'clock_span_base', None)
        p.assume(t - (base if base is not None else readings0[0]) < span)        # stated bound of a history obligation: the whole history happens within `span`
    p.clock_last = t
    readings = getattr(p, 'clock_readings', [])
    readings.append(t)
    p.clock_readings = readings
    p.effect('clock', t)
    return instant(t)


def install(ctx):
    M = ctx.models
    ctx.static_models['EPOCH'] = lambda ip: Opaque('EPOCH-lazy')

    @M.reg('<EPOCH as Deref>::deref')
    def epoch_deref(ip, pc, args, dt):
        ip.path.assume(epoch_term() >= 0)
        return Ref(Loc(Cell(instant(epoch_term()), 'EPOCH')))

    @M.reg('Instant::now')
    def now(ip, pc, args, dt):
        return clock_now(ip)

    @M.reg('SystemTime::now')
    def sysnow(ip, pc, args, dt):
        t = ip.path.fresh('systime')
        ip.path.effect('systime', t)
        return S(t, 'SystemTime')

    @M.reg('Instant::duration_since', 'Instant::saturating_duration_since')
    def duration_since(ip, pc, args, dt):
        a, b = deref_all(args[0]), deref_all(args[1])
        return duration(z3.If(a.t >= b.t, a.t - b.t, 0))

    @M.reg('Duration::as_micros')
    def as_micros(ip, pc, args, dt):
        d = deref_all(args[0])
        return S(d.t / 1000, 'u128')

    @M.reg('Duration::as_millis')
    def as_millis(ip, pc, args, dt):
        d = deref_all(args[0])
        return S(d.t / 1000000, 'u128')

    @M.reg('Duration::as_secs')
    def as_secs(ip, pc, args, dt):
        d = deref_all(args[0])
        return S(d.t / NS, 'u64')

    @M.reg('Duration::from_micros')
    def from_micros(ip, pc, args, dt):
        return duration(args[0].t * 1000)

    @M.reg('Duration::from_millis')
    def from_millis(ip, pc, args, dt):
        return duration(args[0].t * 1000000)

    @M.reg('Duration::from_secs')
    def from_secs(ip, pc, args, dt):
        return duration(args[0].t * NS)

    @M.reg('Instant::checked_add')
    def checked_add(ip, pc, args, dt):
        a, d = deref_all(args[0]), deref_all(args[1])
        # std Instant: i64 seconds; overflow beyond ~2^63 s is outside the time bound
        return some(instant(a.t + d.t))

    @M.reg('<Instant as Add>::add', '<Add>::add')
    def add(ip, pc, args, dt):
        a, d = deref_all(args[0]), deref_all(args[1])
        if isinstance(a, S) and a.ty == 'Instant':
            return instant(a.t + d.t)
        if isinstance(a, S) and a.ty == 'Duration':
            return duration(a.t + d.t)
        return NotImplemented

    @M.reg('<AckDeadline as From>::from')
    def _none(ip, pc, args, dt):
        return NotImplemented
