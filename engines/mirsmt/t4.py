"""Tier 4: interleaving of several interpreted activities at shared-operation granularity.

An activity is a generator (MIR execution) that yields a scheduling point *before* every shared
operation (atomic load / fetch_*, Notify::notified, notify_waiters, Notified::poll).  Which
activity moves next is a `Path.choose` - i.e. a fork of the symbolic executor; the data (limits,
counters, deltas) stay solver terms, so each explored schedule stands for all values.

tokio::sync::Notify is a contract state machine here (documented behaviour):
  * `notified()` creates a Notified that observes every `notify_waiters()` call made after its creation,
    even before it is first polled;
  * `Notified::poll`: Ready if such a call happened, or if a `notify_one` permit is stored (consumed);
    else the task is registered and the poll is Pending;
  * `notify_waiters()` wakes all registered tasks and bumps the generation; it stores no permit;
  * `notify_one()` wakes the first registered task, or stores one permit if none is registered.
The contract is cross-checked against the real tokio Notify by Kani harness K5.
"""
import z3
from values import *
from interp import Interp, bool_s, mk_int, wrap_int
from models_core import deref_all
from models_async import PENDING, ready, poll_future


class AtomicM(Model):
    def __init__(self, name, cell):
        self.name = name
        self.cell = cell


class NotifyT4(Model):
    """shared Notify with explicit (concrete) protocol state"""

    def __init__(self, name):
        self.name = name
        self.gen = 0
        self.permit = False
        self.waiters = []          # activities registered by a Pending poll

    def ite(self, c, o):
        return self


class NotifiedT4(Model):
    def __init__(self, notify, gen, owner):
        self.notify = notify
        self.gen = gen
        self.owner = owner
        self.done = False


class Activity:
    def __init__(self, name, ip):
        self.name = name
        self.ip = ip
        self.gen = None
        self.state = 'ready'       # ready | parked | done
        self.woken = False
        self.result = None
        self.polls = 0
        self.ops = 0


def sched_point(ip, what):
    """yield to the scheduler before a shared operation (no-op outside Tier 4)"""
    if getattr(ip, 'activity', None) is not None:
        ip.path.effect('op', ip.activity.name, what)
        yield ('sched', what)


def install(ctx):
    M = ctx.models

    @M.reg('Atomic::load', 'AtomicU64::load', 'AtomicUsize::load')
    def atomic_load(ip, pc, args, dt):
        a = read_loc(args[0].loc)
        yield from sched_point(ip, 'load ' + a.name)
        v = a.cell.v
        ip.path.effect('loaded', getattr(getattr(ip, 'activity', None), 'name', '-'), a.name, v.t)
        return v

    @M.reg('Atomic::fetch_add', 'Atomic::fetch_sub', 'AtomicU64::fetch_add', 'AtomicU64::fetch_sub')
    def atomic_rmw(ip, pc, args, dt):
        a = read_loc(args[0].loc)
        yield from sched_point(ip, pc['method'] + ' ' + a.name)
        old = a.cell.v
        d = args[1]
        new = old.t + d.t if pc['method'] == 'fetch_add' else old.t - d.t
        a.cell.v = S(wrap_int(new, old.ty), old.ty)       # atomics wrap around on overflow
        return old

    prev_notified = M.table.get('Notify::notified')
    prev_nw = M.table.get('Notify::notify_waiters')

    @M.reg('Notify::notified')
    def notified(ip, pc, args, dt):
        n = read_loc(args[0].loc)
        if not isinstance(n, NotifyT4):
            return prev_notified(ip, pc, args, dt)
        yield from sched_point(ip, 'notified() ' + n.name)
        return NotifiedT4(n, n.gen, ip.activity)

    @M.reg('Notify::notify_waiters', 'Notify::notify_one')
    def notify(ip, pc, args, dt):
        n = read_loc(args[0].loc)
        if not isinstance(n, NotifyT4):
            return prev_nw(ip, pc, args, dt)
        yield from sched_point(ip, pc['method'] + ' ' + n.name)
        if pc['method'] == 'notify_waiters':
            n.gen += 1
            for act in n.waiters:
                act.woken = True
                if act.state == 'parked':
                    act.state = 'ready'
            ip.path.effect('notify_waiters', n.name, len(n.waiters))
            n.waiters = []
        else:
            if n.waiters:
                act = n.waiters.pop(0)
                act.woken = True
                act.notified_one = True
                if act.state == 'parked':
                    act.state = 'ready'
            else:
                n.permit = True
            ip.path.effect('notify_one', n.name)
        return UNIT

    prev_poll = M.table.get('<Future>::poll')

    @M.reg('<Future>::poll', 'Future::poll')
    def future_poll(ip, pc, args, dt):
        pin = args[0]
        loc = pin.fields[0].loc if isinstance(pin, Agg) else pin.loc
        v = read_loc(loc)
        if isinstance(v, NotifiedT4):
            yield from sched_point(ip, 'Notified::poll ' + v.notify.name)
            n = v.notify
            act = ip.activity
            if v.done:
                raise PanicPath('panic', 'Notified polled after completion')
            if n.gen > v.gen or getattr(act, 'notified_one', False):
                v.done = True
                act.notified_one = False
                if act in n.waiters:
                    n.waiters.remove(act)
                return ready(UNIT)
            if n.permit:
                n.permit = False
                v.done = True
                return ready(UNIT)
            if act not in n.waiters:
                n.waiters.append(act)
            return PENDING
        r = yield from prev_poll(ip, pc, args, dt)
        return r


def run_activities(path, acts, max_steps=400):
    """advance the activities in an order chosen by the path's decisions until none is runnable.
    Each step = one shared operation plus the local computation up to the next one."""
    steps = 0
    while True:
        runnable = [a for a in acts if a.state == 'ready']
        if not runnable:
            return steps
        i = path.choose(len(runnable), 'schedule')
        a = runnable[i]
        steps += 1
        if steps > max_steps:
            raise OutOfBound('schedule longer than %d steps' % max_steps)
        try:
            ev = next(a.gen)
            a.ops += 1
            if ev and ev[0] == 'park':
                # Pending returned: parked unless a wake-up already arrived in the meantime
                if a.woken:
                    a.woken = False
                    a.state = 'ready'
                else:
                    a.state = 'parked'
        except StopIteration as e:
            a.state = 'done'
            a.result = e.value


def future_activity(act, loc, max_polls=6):
    """activity body: poll the future at loc; after Pending, park until woken"""
    ip = act.ip
    for _ in range(max_polls):
        act.woken = False
        act.polls += 1
        r = yield from poll_future(ip, loc)
        if r.discr == 0:
            return r.payload[0][0]
        yield ('park',)
    raise OutOfBound('future polled more than %d times' % max_polls)


def call_activity(act, fn, args):
    r = yield from act.ip.call_fn(fn, args)
    return r
