"""Tier 4: interleaving of several interpreted activities at shared-operation granularity.

An activity is a generator (MIR execution) that yields a scheduling point *before* every shared
operation (atomic load / fetch_*, Notify::notified, notify_waiters, Notified::poll).  Which
activity moves next is a `Path.choose` - i.e. a fork of the symbolic executor; the data (limits,
counters, deltas) stay solver terms, so each explored schedule stands for all values.

tokio::sync::Notify is a contract state machine here (documented behaviour):
  * `notified()` creates a Notified that observes every `notify_waiters()` call made after its creation,
    even before it is first polled;
  * `Notified::poll`: Ready if such a call happened, or if a `notify_one` permit is stored (consumed);
    else the task is registered and the poll is Pending;
  * `notify_waiters()` wakes all registered tasks and bumps the generation; it stores no permit;
  * `notify_one()` wakes the first registered task, or stores one permit if none is registered.
The contract is cross-checked against the real tokio Notify by Kani harness K5.
"""
import os
import z3
from values import *
from interp import Interp, bool_s, mk_int, wrap_int
from models_core import deref_all
from models_async import PENDING, ready, poll_future


class AtomicM(Model):
    def __init__(self, name, cell):
        self.name = name
        self.cell = cell


class NotifyT4(Model):
    """shared Notify with explicit (concrete) protocol state"""

    def __init__(self, name):
        self.name = name
        self.gen = 0
        self.permit = False
        self.waiters = []          # activities registered by a Pending poll

    def ite(self, c, o):
        return self


class NotifiedT4(Model):
    def __init__(self, notify, gen, owner):
        self.notify = notify
        self.gen = gen
        self.owner = owner
        self.done = False


class Activity:
    def __init__(self, name, ip):
        self.name = name
        self.ip = ip
        self.gen = None
        self.state = 'ready'       # ready | parked | done
        self.woken = False
        self.result = None
        self.polls = 0
        self.ops = 0
        self.done_waiters = []     # activities waiting for this one to end (e.g. mpsc::Sender::closed on an actor's mailbox)


def touch(path, *what):
    """footprint of the step being executed (used by the sleep-set reduction in run_activities)"""
    fp = getattr(path, 'fp', None)
    if fp is not None:
        fp.add(what)


def sched_point(ip, what):
    """yield to the scheduler before a shared operation (no-op outside Tier 4)"""
    if getattr(ip, 'activity', None) is not None:
        ip.path.effect('op', ip.activity.name, what)
        yield ('sched', what)


def install(ctx):
    M = ctx.models

    @M.reg('AtomicBool::new', 'AtomicU64::new', 'AtomicUsize::new', 'AtomicU32::new', 'Atomic::new')
    def atomic_new(ip, pc, args, dt):
        ip.path.counter += 1
        return AtomicM('atomic#%d' % ip.path.counter, Cell(args[0], 'atomic'))

    @M.reg('Atomic::fetch_update', 'AtomicU64::fetch_update', 'AtomicUsize::fetch_update')
    def atomic_fetch_update(ip, pc, args, dt):
        # one atomic step (the CAS loop of fetch_update retries until it applies f to the value it stores over)
        a = read_loc(args[0].loc)
        yield from sched_point(ip, 'fetch_update ' + a.name)
        old = a.cell.v
        r = yield from ip.call_closure(args[3], [old])
        from models_core import variant_of, ok, err
        if variant_of(ip, r) == 1:
            touch(ip.path, 'atomic-write', a.name)
            a.cell.v = r.payload[1][0]
            return ok(old)
        return err(old)

    @M.reg('AtomicBool::load')
    def atomic_bool_load(ip, pc, args, dt):
        a = read_loc(args[0].loc)
        yield from sched_point(ip, 'load ' + a.name)
        return a.cell.v

    @M.reg('AtomicBool::store', 'AtomicU64::store', 'AtomicUsize::store', 'Atomic::store', 'AtomicBool::swap', 'AtomicU64::swap')
    def atomic_store(ip, pc, args, dt):
        a = read_loc(args[0].loc)
        yield from sched_point(ip, pc['method'] + ' ' + a.name)
        touch(ip.path, 'atomic-write', a.name)
        old = a.cell.v
        a.cell.v = args[1]
        return old if pc['method'] == 'swap' else UNIT

    @M.reg('Atomic::load', 'AtomicU64::load', 'AtomicUsize::load')
    def atomic_load(ip, pc, args, dt):
        a = read_loc(args[0].loc)
        yield from sched_point(ip, 'load ' + a.name)
        v = a.cell.v
        ip.path.effect('loaded', getattr(getattr(ip, 'activity', None), 'name', '-'), a.name, v.t)
        return v

    @M.reg('Atomic::fetch_add', 'Atomic::fetch_sub', 'AtomicU64::fetch_add', 'AtomicU64::fetch_sub')
    def atomic_rmw(ip, pc, args, dt):
        a = read_loc(args[0].loc)
        yield from sched_point(ip, pc['method'] + ' ' + a.name)
        old = a.cell.v
        touch(ip.path, 'atomic-write', a.name)
        d = args[1]
        new = old.t + d.t if pc['method'] == 'fetch_add' else old.t - d.t
        a.cell.v = S(wrap_int(new, old.ty), old.ty)       # atomics wrap around on overflow
        return old

    prev_notified = M.table.get('Notify::notified')
    prev_nw = M.table.get('Notify::notify_waiters')

    @M.reg('Notify::notified')
    def notified(ip, pc, args, dt):
        n = read_loc(args[0].loc)
        if not isinstance(n, NotifyT4):
            return prev_notified(ip, pc, args, dt)
        yield from sched_point(ip, 'notified() ' + n.name)
        return NotifiedT4(n, n.gen, ip.activity)

    @M.reg('Notify::notify_waiters', 'Notify::notify_one')
    def notify(ip, pc, args, dt):
        n = read_loc(args[0].loc)
        if not isinstance(n, NotifyT4):
            return prev_nw(ip, pc, args, dt)
        yield from sched_point(ip, pc['method'] + ' ' + n.name)
        touch(ip.path, 'notify', n.name)
        if pc['method'] == 'notify_waiters':
            touch(ip.path, 'gen-write', n.name)
            n.gen += 1
            for act in n.waiters:
                act.woken = True
                if act.state == 'parked':
                    act.state = 'ready'
            ip.path.effect('notify_waiters', n.name, len(n.waiters))
            n.waiters = []
        else:
            if n.waiters:
                act = n.waiters.pop(0)
                act.woken = True
                act.notified_one = True
                if act.state == 'parked':
                    act.state = 'ready'
            else:
                n.permit = True
            ip.path.effect('notify_one', n.name)
        return UNIT

    # ---- locks: acquisition is a scheduling point; a conflicting holder blocks the activity (A4: mutual exclusion)
    from models_sync import LockM, GuardM
    prev_lock = M.table.get('RwLock::write')

    class GuardT4(GuardM):
        def __init__(self, lock, mode, act):
            GuardM.__init__(self, lock, mode)
            self.act = act

        def on_drop(self, ip):
            lk = self.lock
            lk.holders = [h for h in getattr(lk, 'holders', []) if h[0] is not self.act or h[1] != self.mode]
            touch(ip.path, 'unlock', lk.name)
            ip.path.effect('unlock', lk.name, self.mode)
            for b in getattr(lk, 'blocked', []):
                if b.state == 'blocked':
                    b.state = 'ready'
            lk.blocked = []

    @M.reg('RwLock::read', 'RwLock::write', 'Mutex::lock', 'RwLock::upgradable_read')
    def lock_acquire(ip, pc, args, dt):
        act = getattr(ip, 'activity', None)
        if act is None:
            r = prev_lock(ip, pc, args, dt)
            return r
        lk = read_loc(args[0].loc)
        if isinstance(lk, Ref):
            lk = read_loc(lk.loc)
        if not isinstance(lk, LockM):
            raise Unsupported('lock on %r' % (lk,))
        mode = {'read': 'read', 'write': 'write', 'lock': 'write', 'upgradable_read': 'read'}[pc['method']]
        yield from sched_point(ip, 'lock %s %s' % (lk.name, mode))
        while True:
            holders = getattr(lk, 'holders', [])
            if any(h[0] is act for h in holders) and (mode == 'write' or any(h[0] is act and h[1] == 'write' for h in holders)):
                raise PanicPath('deadlock', 'lock %s acquired while already held by the same task' % lk.name)
            if not any(h[0] is not act and (mode == 'write' or h[1] == 'write') for h in holders):
                break
            lk.blocked = getattr(lk, 'blocked', []) + [act]
            yield ('block', lk.name)
        lk.holders = getattr(lk, 'holders', []) + [(act, mode)]
        touch(ip.path, 'lock', lk.name)
        ip.path.effect('lock', lk.name, mode)
        return GuardT4(lk, mode, act)

    prev_enable = M.table.get('Notified::enable')

    @M.reg('Notified::enable')
    def notified_enable(ip, pc, args, dt):
        # tokio: "Adds this future to the list of futures that are ready to receive wakeups from calls to notify_one";
        # returns true if the future is already complete (a stored permit is consumed / a notify_waiters was seen)
        pin = args[0]
        loc = pin.fields[0].loc if isinstance(pin, Agg) else pin.loc
        v = read_loc(loc)
        if not isinstance(v, NotifiedT4):
            if prev_enable is None:
                return bool_s(z3.BoolVal(False))
            r = prev_enable(ip, pc, args, dt)
            return r
        yield from sched_point(ip, 'Notified::enable ' + v.notify.name)
        n = v.notify
        act = ip.activity
        touch(ip.path, 'npoll', n.name)
        if n.gen > v.gen:
            return bool_s(z3.BoolVal(True))
        if n.permit:
            n.permit = False
            v.gen = -1            # completed: the next poll is Ready
            v.enabled_done = True
            return bool_s(z3.BoolVal(True))
        if act not in n.waiters:
            n.waiters.append(act)
        v.enabled = True
        return bool_s(z3.BoolVal(False))

    prev_poll = M.table.get('<Future>::poll')

    @M.reg('<Future>::poll', 'Future::poll')
    def future_poll(ip, pc, args, dt):
        pin = args[0]
        loc = pin.fields[0].loc if isinstance(pin, Agg) else pin.loc
        v = read_loc(loc)
        if isinstance(v, NotifiedT4):
            yield from sched_point(ip, 'Notified::poll ' + v.notify.name)
            n = v.notify
            act = ip.activity
            touch(ip.path, 'npoll', n.name)
            if v.done:
                raise PanicPath('panic', 'Notified polled after completion')
            if n.gen > v.gen or getattr(act, 'notified_one', False) or getattr(v, 'enabled_done', False):
                v.done = True
                act.notified_one = False
                if act in n.waiters:
                    n.waiters.remove(act)
                return ready(UNIT)
            if n.permit:
                n.permit = False
                v.done = True
                return ready(UNIT)
            if act not in n.waiters:
                n.waiters.append(act)
            return PENDING
        r = yield from prev_poll(ip, pc, args, dt)
        return r


def prime(acts):
    """run each activity's local prefix up to its first shared operation"""
    for a in acts:
        try:
            ev = next(a.gen)
            a.pending_op = ev[1] if ev and ev[0] == 'sched' else None
        except StopIteration as e:
            a.state = 'done'
            a.result = e.value


def _independent(label, fp):
    """may the (not yet executed) shared operation `label` of a sleeping activity be swapped with the step whose
    footprint is fp?  Only operations whose footprint is fixed by the contract models (not by the code under test)
    are ever considered; everything else is dependent on everything."""
    if not label:
        return False
    kind, _, name = label.partition(' ')
    if kind == 'notified()':                      # reads the generation of the Notify
        return ('gen-write', name) not in fp
    if kind == 'Notified::poll':                  # reads generation/permit, registers the task
        return not any(x[1:] == (name,) and x[0] in ('notify', 'gen-write', 'npoll') for x in fp)
    if kind == 'Deleted::poll':                   # reads the one-shot, registers the task
        return ('oneshot-send',) not in fp
    if kind == 'load':                            # atomic load
        return ('atomic-write', name) not in fp
    return False


POR = os.environ.get('VERIF_NO_POR', '') == ''
fp_touch_done = True


def run_activities(path, acts, max_steps=400):
    """advance the activities in an order chosen by the path's decisions until none is runnable.
    Each step = one shared operation plus the local computation up to the next one.
    Sleep sets (Godefroid) prune interleavings that differ from an explored one only by the order of two
    adjacent independent steps; every reachable final state stays reachable."""
    steps = 0
    sleep = []
    while True:
        runnable = [a for a in acts if a.state == 'ready']
        if not runnable:
            return steps
        cand = [a for a in runnable if a not in sleep]
        if not cand:
            path.effect('por', 'pruned')
            raise Infeasible()
        i = path.choose(len(cand), 'schedule')
        a = cand[i]
        steps += 1
        if steps > max_steps:
            raise OutOfBound('schedule longer than %d steps' % max_steps)
        path.fp = set()
        try:
            ev = next(a.gen)
            a.ops += 1
            a.pending_op = ev[1] if ev and ev[0] == 'sched' else None
            if ev and ev[0] == 'block':
                a.state = 'blocked'
            if ev and ev[0] == 'park':
                # Pending returned: parked unless a wake-up already arrived in the meantime
                if a.woken:
                    a.woken = False
                    a.state = 'ready'
                else:
                    a.state = 'parked'
        except StopIteration as e:
            a.state = 'done'
            a.result = e.value
            for w in a.done_waiters:
                w.woken = True
                if w.state == 'parked':
                    w.state = 'ready'
            # a finished task drops what it owned: replies it never sent fail their receivers
            if a in getattr(path, 'responder_owners', []):
                for cid, ws in list(getattr(path, 'oneshot_waiters', {}).items()):
                    if cid not in getattr(path, 'sent', {}):
                        for w in ws:
                            w.woken = True
                            if w.state == 'parked':
                                w.state = 'ready'
            if fp_touch_done:
                path.fp.add(('task-end', a.name))
        fp = path.fp
        path.fp = None
        if POR:
            sleep = [b for b in sleep + cand[:i] if b is not a and b.state == 'ready' and _independent(getattr(b, 'pending_op', None), fp)]


def future_activity(act, loc, max_polls=6):
    """activity body: poll the future at loc; after Pending, park until woken"""
    ip = act.ip
    for _ in range(max_polls):
        act.woken = False
        act.polls += 1
        r = yield from poll_future(ip, loc)
        if r.discr == 0:
            return r.payload[0][0]
        yield ('park',)
    raise OutOfBound('future polled more than %d times' % max_polls)


def call_activity(act, fn, args):
    r = yield from act.ip.call_fn(fn, args)
    return r
