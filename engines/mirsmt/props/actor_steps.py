"""One inductive step of each SubscriptionActor / OutstandingMessageTracker handler
from an arbitrary state satisfying I (within the slot bounds), compared with a
reference step.  Claims carry tags; each property's check keeps the claims whose
tags it lists (the step itself is always executed from the real MIR)."""
import z3
from framework import Obligation, Claim, Cover, model_value
from values import *
from interp import run_to_end
from models_coll import Seq, Window, select
from models_core import NONE, some
from props.common import *


def tagged(tags, label, f):
    c = Claim(label, f)
    c.tags = set(tags.split())
    return c


def filt(items, want):
    out = []
    for it in items:
        if isinstance(it, Cover) or not hasattr(it, 'tags') or (it.tags & want):
            out.append(it)
    return out


def E():
    return z3.Int('EPOCH')


def rounded(x_abs):
    """AckDeadline::new as a formula (validated against the MIR by C04.a 'exact formula')"""
    x = x_abs - E()
    return E() + (x / 1000 + (x / 1000) % 100000) * 1000


def notified(p, name='messages_available', kind='notify_one'):
    return any(ev[0] == kind and ev[1] == name for ev in p.log)


def invariant_actor(ctx, st, actor2, extra_toks=()):
    """I1-I4 on the post-state (I5/I6 are bounds / handled per handler)"""
    f = actor_fields(ctx, actor2)
    m, s = tracker_parts(ctx, f['outstanding'])
    conj = [tracker_invariant(ctx, f['outstanding'])]
    bl = f['backlog']
    for u, k, v in m.slots:
        tok, ack, dl, att = pm_parts(ctx, v)
        conj.append(z3.Implies(u, z3.And(ack < f['next'], ack >= 1)))                 # I3
        for j, e in enumerate(bl.elems):
            conj.append(z3.Implies(z3.And(u, bl.n > j), e.tok != tok))                  # I4 (out vs backlog)
    for i in range(len(m.slots)):
        for j in range(i + 1, len(m.slots)):
            ui, _, vi = m.slots[i]
            uj, _, vj = m.slots[j]
            conj.append(z3.Implies(z3.And(ui, uj), pm_parts(ctx, vi)[0] != pm_parts(ctx, vj)[0]))   # I4 (out vs out)
    for i in range(len(bl.elems)):
        for j in range(i + 1, len(bl.elems)):
            conj.append(z3.Implies(bl.n > j, bl.elems[i].tok != bl.elems[j].tok))       # I4 (backlog)
    conj.append(f['next'] >= 1)
    return z3.And(conj)


def backlog_is(bl2, toks, n):
    """backlog' == the sequence toks[0..n) (toks python list of terms, n term)"""
    conj = [bl2.n == n]
    for j, t in enumerate(toks):
        if j < len(bl2.elems):
            conj.append(z3.Implies(n > j, bl2.elems[j].tok == t))
        else:
            conj.append(n <= j)
    return z3.And(conj)


def unchanged_outstanding(ctx, st, tr2):
    m2, s2 = tracker_parts(ctx, tr2)
    conj = [m2.count() == z3.Sum([z3.If(d.used, 1, 0) for d in st.ds] or [z3.IntVal(0)])]
    for d in st.ds:
        conj.append(z3.Implies(d.used, tracker_has(ctx, tr2, d)))
    return z3.And(conj)


def state_info(m, st):
    return {
        'next_ack_id': model_value(m, st.next), 'deleted': model_value(m, st.deleted),
        'ack_deadline_s': model_value(m, st.ackdl),
        'topic_alive': model_value(m, st.topic_alive) if getattr(st, 'topic_alive', None) is not None else None,
        'backlog': [model_value(m, t) for i, t in enumerate(st.btoks) if model_value(m, st.blen) > i],
        'outstanding': [{'ack': model_value(m, d.ack), 'tok': model_value(m, d.tok),
                         'deadline_ns': model_value(m, d.dl - E())} for d in st.ds if model_value(m, d.used)],
    }


class ActorStep(Obligation):
    tags = set()

    def __init__(self, ctx, n_out, n_back, k, tags, id_prefix):
        self.n_out, self.n_back, self.k = n_out, n_back, k
        self.want = set(tags.split())
        self.id = id_prefix
        self.bounds = {'outstanding_slots': n_out, 'backlog_slots': n_back, 'batch': k}
        self.unroll = max(n_out, n_back, k) + 3
        install_tokens(ctx)

    def post(self, ip, p, res):
        return filt(self.claims(ip, p, res), self.want)

    def model_info(self, p, m, res):
        if not res:
            cur = getattr(self, '_cur', None)
            if not cur:
                return {}
            st, mx = cur
            res = {'st': st, 'args': {'max_count': mx}}
        info = state_info(m, res['st'])
        if hasattr(res['st'], 'biglen'):
            info['backlog_len64'] = model_value(m, res['st'].biglen)
        for k, v in res.get('args', {}).items():
            info[k] = [model_value(m, x) for x in v] if isinstance(v, list) else model_value(m, v)
        return info


# ---------------------------------------------------------------------- post_messages

class StepPost(ActorStep):
    desc = 'post_messages(batch): whole batch appended in order, once; notify; deleted => no-op'

    def body(self, ip, p):
        ctx = ip.ctx
        st = sym_actor(ctx, p, self.n_out, self.n_back)
        toks = [p.fresh('new%d_tok' % i) for i in range(self.k)]
        n = p.fresh('batch_len')
        p.assume(z3.And(n >= 0, n <= self.k))
        # posted messages are fresh Arcs (C08.a): distinct from everything the subscription holds
        for i, t in enumerate(toks):
            for j in range(i + 1, len(toks)):
                p.assume(t != toks[j])
            for d in st.ds:
                p.assume(z3.Implies(d.used, d.tok != t))
            for j, b in enumerate(st.btoks):
                p.assume(b != t)
        batch = Seq([ArcTok(t, 'TopicMessage') for t in toks], n, 'vec')
        fn = ctx.fn('SubscriptionActor', 'post_messages')
        run_to_end(ip.call_fn(fn, [Ref(Loc(st.cell), True), batch]))
        return {'st': st, 'args': {'batch': toks, 'batch_len': n}, 'toks': toks, 'n': n}

    def claims(self, ip, p, res):
        ctx = ip.ctx
        st, toks, n = res['st'], res['toks'], res['n']
        f = actor_fields(ctx, st.cell.v)
        bl2 = f['backlog']
        out = []
        # expected backlog: old ++ batch when not deleted
        exp = []
        for j in range(self.n_back + self.k):
            e = z3.IntVal(0)
            for i in range(self.k - 1, -1, -1):
                e = z3.If(j - st.blen == i, toks[i], e)
            if j < self.n_back:
                e = z3.If(st.blen > j, st.btoks[j], e)
            exp.append(e)
        newn = z3.If(st.deleted, st.blen, st.blen + n)
        out.append(tagged('conserve fifo', 'backlog == old ++ batch (or unchanged when deleted)',
                          backlog_is(bl2, exp, newn)))
        out.append(tagged('conserve lease ack-local', 'outstanding unchanged', unchanged_outstanding(ctx, st, f['outstanding'])))
        out.append(tagged('lease', 'next_ack_id unchanged', f['next'] == st.next))
        out.append(tagged('conserve', 'deleted flag unchanged', f['deleted'] == st.deleted))
        out.append(tagged('conserve lease', 'invariant I after', invariant_actor(ctx, st, st.cell.v)))
        if not notified(p):
            out.append(tagged('notify', 'notify_one when tokens were added', z3.Or(st.deleted, n == 0)))
        out.append(Cover('batch of %d appended to non-empty backlog' % self.k, z3.And(n == self.k, st.blen > 0, z3.Not(st.deleted))))
        out.append(Cover('deleted', st.deleted))
        return out


# ---------------------------------------------------------------------- pull_messages

class StepPull(ActorStep):
    desc = 'pull_messages(max): prefix of backlog in order, fresh ack ids next.., one deadline = round(now+ack_deadline), batch size formula, notify if tokens left'

    def __init__(self, ctx, n_out, n_back, k, tags, id_prefix, lazy_len=False):
        ActorStep.__init__(self, ctx, n_out, n_back, k, tags, id_prefix)
        self.lazy_len = lazy_len
        if lazy_len:
            self.bounds['backlog_length'] = 'any usize (elements beyond the slots are fresh on demand; batches > %d cut)' % n_back
            self.allow_out_of_bound = True

    def body(self, ip, p):
        ctx = ip.ctx
        st = sym_actor(ctx, p, self.n_out, self.n_back)
        if self.lazy_len:
            # free 64-bit backlog length: the slots hold the first elements, the rest is never inspected
            # within the unroll bound
            biglen = p.fresh('backlog_len64')
            p.assume(z3.And(biglen >= self.n_back, biglen < (1 << 64), st.blen == self.n_back))
            a = st.cell.v
            f = actor_fields(ctx, a)
            order = ctx.src.struct_fields('SubscriptionActor')
            bl = Seq(f['backlog'].elems, biglen, 'deque', lazy=lambda ip_: ArcTok(ip_.path.fresh('lazy_tok'), 'TopicMessage'))
            msgs = mk(ctx, 'Messages', list=bl)
            fs = list(a.fields)
            fs[order.index('backlog')] = msgs
            st.cell.v = Agg(a.name, fs)
            st.biglen = biglen
        mx = p.fresh('max_count')
        p.assume(z3.And(mx >= 0, mx < 65536))
        self._cur = (st, mx)
        fn = ctx.fn('SubscriptionActor', 'pull_messages')
        r = run_to_end(ip.call_fn(fn, [Ref(Loc(st.cell), True), S(mx, 'u16')]))
        return {'st': st, 'args': {'max_count': mx}, 'ret': r, 'mx': mx}

    def expected_k(self, st, mx):
        blen = st.biglen if self.lazy_len else st.blen
        l16 = blen % 65536
        cap = z3.If(mx < z3.If(l16 > 1000, l16, 1000), mx, z3.If(l16 > 1000, l16, 1000))
        return z3.If(z3.Or(st.deleted, blen == 0), 0,
                     z3.If(blen < z3.If(cap > 1, cap, 1), blen, z3.If(cap > 1, cap, 1)))

    def on_out_of_bound(self, ip, p):
        # the loop ran past the unrolling bound: legitimate only if the reference batch is at
        # least as large as the number of messages already handed out on this path
        st, mx = self._cur
        f = actor_fields(ip.ctx, st.cell.v)
        handed = f['next'] - st.next
        c = tagged('batch', 'loop longer than the unroll bound only if the reference batch is', self.expected_k(st, mx) >= handed)
        return filt([c, Cover('cut path reached')], self.want)

    def claims(self, ip, p, res):
        ctx = ip.ctx
        st, r, mx = res['st'], res['ret'], res['mx']
        f = actor_fields(ctx, st.cell.v)
        out = [tagged('batch lease', 'returns Ok', r.discr == 0)]
        ret = r.payload[0][0]
        k = ret.cn()
        blen = st.biglen if self.lazy_len else st.blen
        l16 = blen % 65536
        cap = z3.If(mx < z3.If(l16 > 1000, l16, 1000), mx, z3.If(l16 > 1000, l16, 1000))
        expk = z3.If(z3.Or(st.deleted, blen == 0), 0,
                     z3.If(blen < z3.If(cap > 1, cap, 1), blen, z3.If(cap > 1, cap, 1)))
        out.append(tagged('batch', 'batch size == min(len, max(1, min(max, max(len mod 2^16, 1000))))', ret.n == expk))
        out.append(tagged('batch', 'batch <= max(1, max_count)', ret.n <= z3.If(mx > 1, mx, 1)))
        out.append(tagged('batch', 'non-empty backlog, not deleted => at least one', z3.Implies(z3.And(z3.Not(st.deleted), blen > 0), ret.n >= 1)))
        out.append(Cover('returns %d' % k))
        now = p.clock_readings[-1] if getattr(p, 'clock_readings', None) else None
        if k > 0:
            D = rounded(now + st.ackdl * NS)
            out.append(tagged('deadline', 'one clock reading per pull', len(p.clock_readings) == 1))
            for j in range(k):
                tok, ack, dl, att = pm_parts(ctx, ret.elems[j])
                if j < len(st.btoks):
                    out.append(tagged('lease fifo conserve', 'returned[%d] is backlog[%d]' % (j, j), tok == st.btoks[j]))
                out.append(tagged('lease', 'ack id %d == next+%d' % (j, j), ack == st.next + j))
                out.append(tagged('deadline', 'deadline[%d] == round(now + ack_deadline)' % j, dl == D))
                out.append(tagged('deadline', 'deadline[%d] not early, < 100ms late' % j,
                                  z3.And(dl > now + st.ackdl * NS - 1000, dl < now + st.ackdl * NS + 100_000_000)))
                d = Delivery(z3.BoolVal(True), tok, ack, dl, att)
                out.append(tagged('lease conserve deadline', 'returned[%d] is outstanding afterwards' % j,
                                  tracker_has(ctx, f['outstanding'], d)))
        # old deliveries untouched, count
        m2, _ = tracker_parts(ctx, f['outstanding'])
        out.append(tagged('lease conserve ack-local', 'old outstanding deliveries untouched',
                          z3.And([z3.Implies(d.used, tracker_has(ctx, f['outstanding'], d)) for d in st.ds] or [True])))
        out.append(tagged('lease conserve', 'outstanding count == old + k',
                          m2.count() == z3.Sum([z3.If(d.used, 1, 0) for d in st.ds] or [z3.IntVal(0)]) + k))
        out.append(tagged('lease', 'next_ack_id == next + k', f['next'] == st.next + k))
        # backlog' = backlog[k..]
        bl2 = f['backlog']
        if self.lazy_len:
            out.append(tagged('conserve fifo', 'backlog length == len - k', bl2.n == blen - k))
        else:
            out.append(tagged('conserve fifo lease', 'backlog == backlog[k..]', backlog_is(bl2, st.btoks[k:], st.blen - k)))
            out.append(tagged('conserve lease', 'invariant I after', invariant_actor(ctx, st, st.cell.v)))
        out.append(tagged('conserve', 'deleted flag unchanged', f['deleted'] == st.deleted))
        if not notified(p):
            out.append(tagged('notify', 'notify_one when tokens are left behind', bl2.n == 0))
        else:
            out.append(Cover('re-notify path'))
        if not self.lazy_len:
            out.append(Cover('partial batch (max_count < backlog)', z3.And(mx < st.blen, mx >= 1)))
            out.append(Cover('max_count == 0 still returns one', z3.And(mx == 0, st.blen > 0, z3.Not(st.deleted))))
        return out


# ---------------------------------------------------------------------- acknowledge_messages / tracker remove

def sym_ids(p, k, name='id'):
    ids = [p.fresh('%s%d' % (name, i)) for i in range(k)]
    n = p.fresh(name + 's_len')
    p.assume(z3.And(n >= 0, n <= k))
    for t in ids:
        p.assume(z3.And(t >= 0, t <= U64))
    return ids, n


class StepAck(ActorStep):
    desc = 'acknowledge_messages(ids): exactly the named outstanding deliveries removed from both structures; everything else bit-identical; no notify on the consumer signal'

    def body(self, ip, p):
        ctx = ip.ctx
        st = sym_actor(ctx, p, self.n_out, self.n_back)
        ids, n = sym_ids(p, self.k)
        vec = Seq([ack_id(ctx, t) for t in ids], n, 'vec')
        fn = ctx.fn('SubscriptionActor', 'acknowledge_messages')
        r = run_to_end(ip.call_fn(fn, [Ref(Loc(st.cell), True), vec]))
        return {'st': st, 'args': {'ack_ids': ids, 'ack_ids_len': n}, 'ids': ids, 'n': n, 'ret': r}

    def claims(self, ip, p, res):
        ctx = ip.ctx
        st, ids, n = res['st'], res['ids'], res['n']
        f = actor_fields(ctx, st.cell.v)
        out = [tagged('ack-local', 'returns Ok', res['ret'].discr == 0)]
        named = [z3.Or([z3.And(n > k, ids[k] == d.ack) for k in range(len(ids))] or [False]) for d in st.ds]
        for i, d in enumerate(st.ds):
            gone = z3.And(d.used, named[i], z3.Not(st.deleted))
            out.append(tagged('ack-local conserve', 'delivery %d: removed iff named, else untouched' % i,
                              z3.And(z3.Implies(gone, tracker_lacks(ctx, f['outstanding'], d)),
                                     z3.Implies(z3.And(d.used, z3.Not(gone)), tracker_has(ctx, f['outstanding'], d)))))
        m2, s2 = tracker_parts(ctx, f['outstanding'])
        out.append(tagged('ack-local conserve', 'outstanding count',
                          m2.count() == z3.Sum([z3.If(z3.And(d.used, z3.Not(z3.And(named[i], z3.Not(st.deleted)))), 1, 0)
                                                for i, d in enumerate(st.ds)] or [z3.IntVal(0)])))
        out.append(tagged('ack-local conserve lease', 'backlog unchanged', backlog_is(f['backlog'], st.btoks, st.blen)))
        out.append(tagged('ack-local lease', 'next_ack_id unchanged', f['next'] == st.next))
        out.append(tagged('ack-local', 'deleted flag unchanged', f['deleted'] == st.deleted))
        out.append(tagged('ack-local conserve lease', 'invariant I after', invariant_actor(ctx, st, st.cell.v)))
        out.append(tagged('ack-local notify', 'no notify on the consumer signal', not notified(p)))
        if self.n_out >= 2 and self.k >= 2:
            out.append(Cover('two named, one of them outstanding, one unknown',
                             z3.And(n >= 2, st.ds[0].used, ids[0] == st.ds[0].ack, z3.Not(z3.Or([z3.And(d.used, d.ack == ids[1]) for d in st.ds])))))
            out.append(Cover('duplicate id in one request', z3.And(n >= 2, ids[0] == ids[1], st.ds[0].used, ids[0] == st.ds[0].ack)))
        return out


class TrackerRemove(Obligation):
    id = 'C02.a'
    desc = 'OutstandingMessageTracker::remove(ids): messages\' = messages \\ ids, expirations\' likewise, returned = removed deliveries in argument order, I1/I2 kept'

    def __init__(self, ctx, n, k):
        self.n, self.k = n, k
        self.bounds = {'outstanding_slots': n, 'ids': k}
        self.unroll = k + 2
        install_tokens(ctx)
        self.fn = ctx.fn('OutstandingMessageTracker', 'remove')

    def body(self, ip, p):
        ctx = ip.ctx
        tr, ds = sym_tracker(ctx, p, self.n)
        ids, n = sym_ids(p, self.k)
        vec = Seq([ack_id(ctx, t) for t in ids], n, 'vec')
        cell = Cell(tr, 'tracker')
        r = run_to_end(ip.call_fn(self.fn, [Ref(Loc(cell), True), Window(vec, 0, vec.n)]))
        return ds, ids, n, cell.v, r

    def post(self, ip, p, res):
        ctx = ip.ctx
        ds, ids, n, tr2, ret = res
        out = [Claim('I1/I2 after', tracker_invariant(ctx, tr2))]
        named = [z3.Or([z3.And(n > k, ids[k] == d.ack) for k in range(len(ids))] or [False]) for d in ds]
        for i, d in enumerate(ds):
            out.append(Claim('delivery %d removed iff named' % i,
                             z3.And(z3.Implies(z3.And(d.used, named[i]), tracker_lacks(ctx, tr2, d)),
                                    z3.Implies(z3.And(d.used, z3.Not(named[i])), tracker_has(ctx, tr2, d)))))
        # returned: for each argument position k that is the first occurrence of an outstanding id
        hits = []
        for k in range(len(ids)):
            first = z3.And([ids[k2] != ids[k] for k2 in range(k)] or [True])
            hit = z3.And(n > k, first, z3.Or([z3.And(d.used, d.ack == ids[k]) for d in ds] or [False]))
            hits.append(hit)
        out.append(Claim('returned count', ret.n == z3.Sum([z3.If(h, 1, 0) for h in hits] or [z3.IntVal(0)])))
        for k in range(len(ids)):
            pos = z3.Sum([z3.If(hits[k2], 1, 0) for k2 in range(k)] or [z3.IntVal(0)])
            if ret.elems:
                e = select(ret.elems, pos)
                tok, ack, dl, att = pm_parts(ctx, e)
                exp_tok = z3.IntVal(0)
                for d in ds:
                    exp_tok = z3.If(z3.And(d.used, d.ack == ids[k]), d.tok, exp_tok)
                out.append(Claim('returned in argument order [%d]' % k, z3.Implies(hits[k], z3.And(ack == ids[k], tok == exp_tok))))
            else:
                out.append(Claim('no hit when nothing returned [%d]' % k, z3.Not(hits[k])))
        out += returns_covers(ret)
        return out

    def model_info(self, p, m, res):
        if not res:
            return {}
        ds, ids, n, _, _ = res
        return {'ids': [model_value(m, t) for i, t in enumerate(ids) if model_value(m, n) > i],
                'deliveries': [{'ack': model_value(m, d.ack), 'deadline_ns': model_value(m, d.dl - E()), 'tok': model_value(m, d.tok)}
                               for d in ds if model_value(m, d.used)]}


# ---------------------------------------------------------------------- modify

def sym_mods(ctx, p, k):
    ids, n = sym_ids(p, k, 'mod_id')
    mods = []
    kinds = []
    for i in range(k):
        is_ext = p.fresh('mod%d_extend' % i, 'bool')
        nd = p.fresh('mod%d_deadline' % i)
        p.assume(z3.And(nd >= E(), (nd - E()) % 1000 == 0))
        mods.append(mk(ctx, 'DeadlineModification', ack_id=ack_id(ctx, ids[i]),
                       new_deadline=Enum('Option', z3.If(is_ext, 1, 0), {1: (deadline(ctx, nd),)})))
        kinds.append((is_ext, nd))
    return ids, n, mods, kinds


def ref_modify(ds, ids, n, kinds, active):
    """reference fold: per delivery (present, deadline) after the modifications; and the
    list of (hit condition, delivery index selector) for nacks in argument order"""
    present = [d.used for d in ds]
    dls = [d.dl for d in ds]
    nack_hits = []     # per k: (cond, tok term)
    for k in range(len(ids)):
        is_ext, nd = kinds[k]
        hit_any = z3.BoolVal(False)
        tok = z3.IntVal(0)
        newp, newd = [], []
        for i, d in enumerate(ds):
            hit = z3.And(active, n > k, present[i], d.ack == ids[k])
            newp.append(z3.And(present[i], z3.Not(z3.And(hit, z3.Not(is_ext)))))
            newd.append(z3.If(z3.And(hit, is_ext), nd, dls[i]))
            hit_any = z3.Or(hit_any, z3.And(hit, z3.Not(is_ext)))
            tok = z3.If(hit, d.tok, tok)
        present, dls = newp, newd
        nack_hits.append((hit_any, tok))
    return present, dls, nack_hits


def modify_claims(ctx, tags, ds, ids, n, kinds, tr2, nack_toks_seq, active):
    present, dls, nack_hits = ref_modify(ds, ids, n, kinds, active)
    out = [tagged(tags, 'I1/I2 after (old expiry keys gone, new present)', tracker_invariant(ctx, tr2))]
    m2, _ = tracker_parts(ctx, tr2)
    for i, d in enumerate(ds):
        out.append(tagged(tags, 'delivery %d: deadline replaced / removed / untouched per reference fold' % i,
                          z3.And(z3.Implies(present[i], tracker_has(ctx, tr2, d, dl=dls[i])),
                                 z3.Implies(z3.And(d.used, z3.Not(present[i])), z3.Not(m2.found(ack_id(ctx, d.ack)))))))
    out.append(tagged(tags, 'outstanding count', m2.count() == z3.Sum([z3.If(c, 1, 0) for c in present] or [z3.IntVal(0)])))
    return out, nack_hits


class TrackerModify(Obligation):
    id = 'C05.c'
    desc = 'OutstandingMessageTracker::modify(mods) == left fold of the reference step (replace deadline / nack / ignore unknown); I1/I2 kept'

    def __init__(self, ctx, n, k):
        self.n, self.k = n, k
        self.bounds = {'outstanding_slots': n, 'modifications': k}
        self.unroll = k + 2
        install_tokens(ctx)
        self.fn = ctx.fn('OutstandingMessageTracker', 'modify')

    def body(self, ip, p):
        ctx = ip.ctx
        tr, ds = sym_tracker(ctx, p, self.n)
        ids, n, mods, kinds = sym_mods(ctx, p, self.k)
        cell = Cell(tr, 'tracker')
        r = run_to_end(ip.call_fn(self.fn, [Ref(Loc(cell), True), Seq(mods, n, 'vec')]))
        return ds, ids, n, kinds, cell.v, r

    def post(self, ip, p, res):
        ctx = ip.ctx
        ds, ids, n, kinds, tr2, ret = res
        out, nack_hits = modify_claims(ctx, 'modify', ds, ids, n, kinds, tr2, ret, z3.BoolVal(True))
        out.append(Claim('returned count == nacks that hit', ret.n == z3.Sum([z3.If(h, 1, 0) for h, _ in nack_hits] or [z3.IntVal(0)])))
        for k, (h, tok) in enumerate(nack_hits):
            pos = z3.Sum([z3.If(nack_hits[k2][0], 1, 0) for k2 in range(k)] or [z3.IntVal(0)])
            if ret.elems:
                e = select(ret.elems, pos)
                out.append(Claim('nacked deliveries returned in argument order [%d]' % k,
                                 z3.Implies(h, pm_parts(ctx, e)[0] == tok)))
            else:
                out.append(Claim('no nack hit when nothing returned [%d]' % k, z3.Not(h)))
        out += returns_covers(ret)
        if self.n >= 1 and self.k >= 2:
            out.append(Cover('extend then nack the same id', z3.And(n >= 2, ds[0].used, ids[0] == ds[0].ack, ids[1] == ds[0].ack,
                                                                  kinds[0][0], z3.Not(kinds[1][0]))))
            out.append(Cover('shorten', z3.And(n >= 1, ds[0].used, ids[0] == ds[0].ack, kinds[0][0], kinds[0][1] < ds[0].dl)))
        return out

    def model_info(self, p, m, res):
        if not res:
            return {}
        ds, ids, n, kinds, _, _ = res
        return {'mods': [{'ack': model_value(m, ids[i]), 'extend': model_value(m, kinds[i][0]),
                          'deadline_ns': model_value(m, kinds[i][1] - E())} for i in range(len(ids)) if model_value(m, n) > i],
                'deliveries': [{'ack': model_value(m, d.ack), 'deadline_ns': model_value(m, d.dl - E()), 'tok': model_value(m, d.tok)}
                               for d in ds if model_value(m, d.used)]}


class StepModify(ActorStep):
    desc = 'modify_deadline(mods): tracker changed per reference fold; nacked tokens appended to the backlog in order; notify when backlog non-empty'

    def body(self, ip, p):
        ctx = ip.ctx
        st = sym_actor(ctx, p, self.n_out, self.n_back)
        ids, n, mods, kinds = sym_mods(ctx, p, self.k)
        fn = ctx.fn('SubscriptionActor', 'modify_deadline')
        r = run_to_end(ip.call_fn(fn, [Ref(Loc(st.cell), True), Seq(mods, n, 'vec')]))
        return {'st': st, 'ids': ids, 'n': n, 'kinds': kinds, 'ret': r,
                'args': {'mod_ids': ids, 'mods_len': n, 'mod_extend': [k[0] for k in kinds],
                         'mod_deadline_ns': [k[1] - E() for k in kinds]}}

    def claims(self, ip, p, res):
        ctx = ip.ctx
        st, ids, n, kinds = res['st'], res['ids'], res['n'], res['kinds']
        f = actor_fields(ctx, st.cell.v)
        active = z3.Not(st.deleted)
        out, nack_hits = modify_claims(ctx, 'modify conserve lease', st.ds, ids, n, kinds, f['outstanding'], None, active)
        out.append(tagged('modify', 'returns Ok', res['ret'].discr == 0))
        # backlog' = backlog ++ nacked tokens in argument order
        bl2 = f['backlog']
        cnt = z3.Sum([z3.If(h, 1, 0) for h, _ in nack_hits] or [z3.IntVal(0)])
        exp = []
        for j in range(self.n_back + self.k):
            e = z3.IntVal(0)
            for k in range(self.k - 1, -1, -1):
                pos = st.blen + z3.Sum([z3.If(nack_hits[k2][0], 1, 0) for k2 in range(k)] or [z3.IntVal(0)])
                e = z3.If(z3.And(nack_hits[k][0], pos == j), nack_hits[k][1], e)
            if j < self.n_back:
                e = z3.If(st.blen > j, st.btoks[j], e)
            exp.append(e)
        out.append(tagged('modify conserve fifo', 'backlog == old ++ nacked tokens in order', backlog_is(bl2, exp, st.blen + cnt)))
        out.append(tagged('lease', 'next_ack_id unchanged', f['next'] == st.next))
        out.append(tagged('conserve lease', 'invariant I after', invariant_actor(ctx, st, st.cell.v)))
        if not notified(p):
            out.append(tagged('notify', 'notify_one when backlog non-empty after a modify', z3.Or(st.deleted, bl2.n == 0)))
        out.append(Cover('one nack hits', z3.And(cnt == 1, z3.Not(st.deleted))))
        return out


# ---------------------------------------------------------------------- expiry

class StepExpire(ActorStep):
    desc = 'take_expired(now) + handle_expired_messages: due tokens leave outstanding and are appended to the backlog in (deadline, ack) order; old ack ids inert; notify'

    def body(self, ip, p):
        ctx = ip.ctx
        st = sym_actor(ctx, p, self.n_out, self.n_back, deleted=False)
        now = p.fresh('now')
        p.assume(now >= E())
        a = st.cell.v
        order = ctx.src.struct_fields('SubscriptionActor')
        oi = order.index('outstanding')
        take = ctx.fn('OutstandingMessageTracker', 'take_expired')
        expired = run_to_end(ip.call_fn(take, [Ref(Loc(st.cell, (('f', oi),)), True), Ref(Loc(Cell(S(now, 'Instant'))))]))
        res = {'st': st, 'now': now, 'args': {'now_ns': now - E()}, 'expired_n': expired.cn()}
        # the actor loop hands a non-empty batch to handle_expired_messages (poll_next_expired returns Some only then)
        if expired.cn() == 0:
            res['skipped'] = True
            return res
        fn = ctx.fn('SubscriptionActor', 'handle_expired_messages')
        run_to_end(ip.call_fn(fn, [Ref(Loc(st.cell), True), expired]))
        return res

    def claims(self, ip, p, res):
        ctx = ip.ctx
        st, now = res['st'], res['now']
        f = actor_fields(ctx, st.cell.v)
        due = [z3.And(d.used, d.dl <= now) for d in st.ds]
        out = []
        bl2 = f['backlog']
        cnt = z3.Sum([z3.If(c, 1, 0) for c in due] or [z3.IntVal(0)])
        exp = []
        for j in range(self.n_back + self.n_out):
            e = z3.IntVal(0)
            for i, d in enumerate(st.ds):
                pos = st.blen + z3.Sum([z3.If(z3.And(due[i2], z3.Or(st.ds[i2].dl < d.dl, z3.And(st.ds[i2].dl == d.dl, st.ds[i2].ack < d.ack))), 1, 0)
                                        for i2 in range(len(st.ds)) if i2 != i] or [z3.IntVal(0)])
                e = z3.If(z3.And(due[i], pos == j), d.tok, e)
            if j < self.n_back:
                e = z3.If(st.blen > j, st.btoks[j], e)
            exp.append(e)
        out.append(tagged('deadline conserve', 'backlog == old ++ due tokens in (deadline, ack) order; nothing with deadline > now moved',
                          backlog_is(bl2, exp, st.blen + cnt)))
        for i, d in enumerate(st.ds):
            out.append(tagged('deadline conserve lease', 'delivery %d: due => inert old ack id; not due => untouched' % i,
                              z3.And(z3.Implies(due[i], tracker_lacks(ctx, f['outstanding'], d)),
                                     z3.Implies(z3.And(d.used, z3.Not(due[i])), tracker_has(ctx, f['outstanding'], d)))))
        out.append(tagged('lease', 'next_ack_id unchanged', f['next'] == st.next))
        out.append(tagged('conserve lease', 'invariant I after', invariant_actor(ctx, st, st.cell.v)))
        if not res.get('skipped') and not notified(p):
            out.append(tagged('notify', 'notify_one after expired tokens were re-queued', z3.BoolVal(False)))
        out.append(Cover('expired batch of %d' % res['expired_n']))
        return out


def conservation(ctx, st, actor2, extra_toks=()):
    """every token the subscription held (backlog or outstanding) is afterwards in exactly one of the
    two places; nothing else appeared"""
    f = actor_fields(ctx, actor2)
    bl2 = f['backlog']
    m2, _ = tracker_parts(ctx, f['outstanding'])

    def in_backlog(t):
        return z3.Or([z3.And(bl2.n > j, e.tok == t) for j, e in enumerate(bl2.elems)] or [False])

    def in_out(t):
        return z3.Or([z3.And(u, pm_parts(ctx, v)[0] == t) for u, k, v in m2.slots] or [False])
    conj = []
    total = z3.IntVal(0)
    for i, t in enumerate(st.btoks):
        conj.append(z3.Implies(st.blen > i, z3.Xor(in_backlog(t), in_out(t))))
        total = total + z3.If(st.blen > i, 1, 0)
    for d in st.ds:
        conj.append(z3.Implies(d.used, z3.Xor(in_backlog(d.tok), in_out(d.tok))))
        total = total + z3.If(d.used, 1, 0)
    conj.append(bl2.n + m2.count() == total)
    return z3.And(conj)


class ReceiveDropped(ActorStep):
    """SubscriptionActor::receive(request) when the caller has gone away (reply cannot be delivered)"""
    tier = 'T3'

    def __init__(self, ctx, variant, n_out=2, n_back=2, id_=None):
        ActorStep.__init__(self, ctx, n_out, n_back, 1, 'x', id_ or ('C16.b-receive-' + variant))
        self.variant = variant
        self.desc = 'receive(%s) with the reply receiver already dropped: same state change as with a live caller; no token lost; no panic' % variant

    def body(self, ip, p):
        ctx = ip.ctx
        from models_async import OneshotTx
        from framework import run_async
        st = sym_actor(ctx, p, self.n_out, self.n_back, deleted=False)
        p.counter += 1
        tx = OneshotTx(p.counter)
        ev = ctx.src.enum_variants('SubscriptionRequest')
        idx = [i for i, (n, _) in enumerate(ev) if n == self.variant][0]
        mx = p.fresh('max_count')
        p.assume(z3.And(mx >= 0, mx < 65536))
        ids, n = sym_ids(p, 1)
        payload = {'PullMessages': (S(mx, 'u16'), tx), 'AcknowledgeMessages': (Seq([ack_id(ctx, ids[0])], n, 'vec'), tx),
                   'ModifyDeadline': (Seq([mk(ctx, 'DeadlineModification', ack_id=ack_id(ctx, ids[0]), new_deadline=Enum('Option', 0, {}))], n, 'vec'), tx),
                   'GetInfo': (tx,), 'GetStats': (tx,), 'Delete': (tx,)}[self.variant]
        if self.variant == 'Delete':
            from props.C16 import default_reply
            ctx.on_enqueue = default_reply
        req = Enum('SubscriptionRequest', idx, {idx: payload})
        p.receiver_dropped = True
        fn = ctx.fn('SubscriptionActor', 'receive')
        coro = run_to_end(ip.call_fn(fn, [Ref(Loc(st.cell), True), req]))
        run_async(ip, p, coro, budget=0)
        return {'st': st, 'mx': mx, 'ids': ids, 'n': n, 'log': list(p.log)}

    def post(self, ip, p, res):
        ctx = ip.ctx
        st = res['st']
        f = actor_fields(ctx, st.cell.v)
        out = [Claim('invariant I after', invariant_actor(ctx, st, st.cell.v))]
        if self.variant == 'Delete':
            m2, s2 = tracker_parts(ctx, f['outstanding'])
            mgr = fld(ctx, st.mstate.v, 'State', 'subscriptions', 'subscriptions/subscription_manager')
            push = fld_single(ctx, st.pstate.v, 'PushSubscriptionsRegistryState')
            out.append(Claim('an enqueued delete completes without its caller: deleted, unregistered, cleared, push unregistered',
                             z3.And(f['deleted'], z3.Not(mgr.found(st.name)), f['backlog'].n == 0, m2.count() == 0, z3.Not(push.found(st.name)))))
            out.append(Claim('consumers were told', any(e[0] == 'notify_waiters' and e[1] == 'messages_available' for e in res['log'])))
            out.append(Cover('topic alive', st.topic_alive))
            return out
        out.append(Claim('the failed reply was attempted (handler ran to the end)', any(e[0] == 'oneshot.send-failed' for e in res['log'])))
        if self.variant != 'AcknowledgeMessages':
            out.append(Claim('no token lost or duplicated', conservation(ctx, st, st.cell.v)))
        else:
            m2, _ = tracker_parts(ctx, f['outstanding'])
            out.append(Claim('only the named delivery left the subscription',
                             z3.And([z3.Implies(z3.And(d.used, z3.Not(z3.And(res['n'] > 0, res['ids'][0] == d.ack))), tracker_has(ctx, f['outstanding'], d))
                                     for d in st.ds] or [True])))
        if self.variant == 'PullMessages':
            k = f['next'] - st.next
            out.append(Claim('messages handed to the vanished consumer stay outstanding (redelivered after the deadline)',
                             z3.And([z3.Implies(z3.And(st.blen > j, k > j), tracker_parts(ctx, f['outstanding'])[0].found(ack_id(ctx, st.next + j)))
                                     for j in range(len(st.btoks))] or [True])))
            out.append(Claim('handed-out count as for a live caller', k == z3.If(st.blen == 0, 0, z3.If(st.blen < z3.If(res['mx'] > 1, res['mx'], 1), st.blen, z3.If(res['mx'] > 1, res['mx'], 1)))))
            out.append(Cover('two messages handed to a vanished consumer', k == 2))
            # C06: the vanished consumer had consumed a wake-up to get here; whatever is still in the backlog must be signalled on
            notified = any(e[0] == 'notify_one' and e[1] == 'messages_available' for e in res['log'])
            out.append(Claim('messages left in the backlog are signalled to the other consumers (the wake-up is handed on)',
                             z3.Implies(f['backlog'].n > 0, z3.BoolVal(notified))))
        if self.variant in ('GetInfo', 'GetStats', 'AcknowledgeMessages'):
            out.append(Claim('backlog unchanged', backlog_is(f['backlog'], st.btoks, st.blen)))
        return out


# ---------------------------------------------------------------------- native replay requests

def _actor_replay(kind, args_of):
    def native_replay(self, v):
        import sys, os
        sys.path.insert(0, os.path.join(os.path.dirname(os.path.dirname(os.path.dirname(os.path.abspath(__file__))))))
        import actor_replay
        info = v.get('info') or {}
        if 'outstanding' not in info and 'deliveries' not in info:
            return None
        if 'deliveries' in info:
            info = dict(info)
            info['outstanding'] = [{'ack': d['ack'], 'tok': d.get('tok'), 'deadline_ns': d.get('deadline_ns', d.get('deadline'))} for d in info['deliveries']
                                   if d.get('used', True)]
            info.setdefault('backlog', [])
        if info.get('backlog_len64') is not None:
            if info['backlog_len64'] > 300000:
                return None
            info = dict(info)
            info['backlog'] = list(range(info['backlog_len64']))
        try:
            return actor_replay.build_script(self.id, info, (kind, args_of(info)))
        except (KeyError, TypeError):
            return None
    return native_replay


StepPull.native_replay = _actor_replay('pull', lambda i: {'max_count': i['max_count']})
StepAck.native_replay = _actor_replay('ack', lambda i: {'ids': i['ack_ids'][:i['ack_ids_len']]})
StepPost.native_replay = _actor_replay('post', lambda i: {'count': i['batch_len']})
StepExpire.native_replay = _actor_replay('expire', lambda i: {'now_ns': i['now_ns']})
StepModify.native_replay = _actor_replay('modify', lambda i: {'mods': [{'ack': i['mod_ids'][k], 'extend': i['mod_extend'][k], 'deadline_ns': i['mod_deadline_ns'][k]}
                                                                         for k in range(i['mods_len'])]})
TrackerRemove.native_replay = _actor_replay('ack', lambda i: {'ids': i['ids']})
TrackerModify.native_replay = _actor_replay('modify', lambda i: {'mods': i['mods']})


# ---------------------------------------------------------------------- the actor loop glue (C01.f, C04.f)

class ActorLoop(ActorStep):
    """SubscriptionActor::start's loop (`select!{ recv => receive(..).await, poll_next_expired => handle_expired_messages }`)
    driven from an arbitrary actor state with at most one request in the mailbox until it parks."""
    tier = 'T3'

    def __init__(self, ctx, n_out=2, n_back=1, k=2, with_request=True, tags='conserve deadline', id_prefix='C01.f', request='post'):
        ActorStep.__init__(self, ctx, n_out, n_back, k, tags, id_prefix)
        self.with_request = with_request
        self.request = request
        self.desc = ('the subscription actor loop itself (select! over mailbox and expiry): ' +
                     (('one %s request in the mailbox' % ('PullMessages' if request == 'pull' else 'PostMessages')) if with_request else 'empty mailbox') +
                     ': handled exactly once; everything due at the clock reading is re-queued; parks with the timer armed for the earliest remaining deadline')
        self.unroll = 8
        self.max_paths = 20000

    def body(self, ip, p):
        ctx = ip.ctx
        from models_async import ReceiverM, poll_future
        p.timers_never_fire = True
        p.signals_never_fire = True      # nobody signals the tracker's private Notify while the loop is parked
        st = sym_actor(ctx, p, self.n_out, self.n_back, deleted=False)
        items, toks, n = [], [], z3.IntVal(0)
        if self.with_request and self.request == 'pull':
            from models_async import OneshotTx
            p.counter += 1
            mx = p.fresh('max_count')
            p.assume(z3.And(mx >= 0, mx < 65536))
            ev = ctx.src.enum_variants('SubscriptionRequest')
            idx = [i for i, (nm, _) in enumerate(ev) if nm == 'PullMessages'][0]
            items = [Enum('SubscriptionRequest', idx, {idx: (S(mx, 'u16'), OneshotTx(p.counter))})]
        elif self.with_request:
            toks = [p.fresh('new%d_tok' % i) for i in range(self.k)]
            n = p.fresh('batch_len')
            p.assume(z3.And(n >= 1, n <= self.k))
            for i, t in enumerate(toks):
                for j in range(i + 1, len(toks)):
                    p.assume(t != toks[j])
                for d in st.ds:
                    p.assume(z3.Implies(d.used, d.tok != t))
                for b in st.btoks:
                    p.assume(b != t)
            ev = ctx.src.enum_variants('SubscriptionRequest')
            idx = [i for i, (nm, _) in enumerate(ev) if nm == 'PostMessages'][0]
            items = [Enum('SubscriptionRequest', idx, {idx: (Seq([ArcTok(t, 'TopicMessage') for t in toks], n, 'vec'),)})]
        if getattr(self, 'lazy_len', False):
            # any backlog length (the elements beyond the slots are never inspected by the loop)
            biglen = p.fresh('backlog_len64')
            p.assume(z3.And(biglen >= self.n_back, biglen < (1 << 64), st.blen == self.n_back))
            a = st.cell.v
            f0 = actor_fields(ctx, a)
            order = ctx.src.struct_fields('SubscriptionActor')
            fs = list(a.fields)
            fs[order.index('backlog')] = mk(ctx, 'Messages', list=Seq(f0['backlog'].elems, biglen, 'deque',
                                                                       lazy=lambda ip_: ArcTok(ip_.path.fresh('lazy_tok'), 'TopicMessage')))
            st.cell.v = Agg(a.name, fs)
        rx_cell = Cell(ReceiverM(items), 'mailbox')
        # the inner `poll` async block of SubscriptionActor::start
        body_fn = None
        for name, f in ctx.dump.functions.items():
            if name.endswith('>::start::{closure#0}::{closure#0}') and 'subscription_actor' in name:
                body_fn = f
        if body_fn is None:
            raise Unsupported('actor loop body not found')
        body_fn.parse()
        byname = {'receiver': Ref(Loc(rx_cell), True), 'actor': Ref(Loc(st.cell), True)}
        nup = max(body_fn.upvar_names) + 1 if body_fn.upvar_names else 0
        upvars = []
        for i in range(nup):
            nm = body_fn.upvar_names.get(i)
            if nm not in byname:
                raise Unsupported('actor loop captures %r' % (nm,))
            upvars.append(byname[nm])
        coro = Enum('coroutine:' + body_fn.name, 0, {}, upvars)
        cell = Cell(coro, 'actor-loop')
        r = run_to_end(poll_future(ip, Loc(cell)))
        return {'st': st, 'toks': toks, 'n': n, 'parked': r.discr == 1, 'log': list(p.log), 'left': len(rx_cell.v.items), 'args': {}}

    def claims(self, ip, p, res):
        ctx = ip.ctx
        st = res['st']
        f = actor_fields(ctx, st.cell.v)
        m2, s2 = tracker_parts(ctx, f['outstanding'])
        bl2 = f['backlog']
        out = [tagged('conserve deadline', 'the loop parks (it neither ends nor panics)', res['parked']),
               tagged('conserve', 'the request was taken from the mailbox', res['left'] == 0),
               tagged('conserve deadline', 'invariant I after', invariant_actor(ctx, st, st.cell.v))]
        # conservation incl. the posted tokens
        def in_backlog(t):
            return z3.Or([z3.And(bl2.n > j, e.tok == t) for j, e in enumerate(bl2.elems)] or [False])
        def in_out(t):
            return z3.Or([z3.And(u, pm_parts(ctx, v)[0] == t) for u, k, v in m2.slots] or [False])
        total = z3.IntVal(0)
        conj = []
        for i, t in enumerate(st.btoks):
            conj.append(z3.Implies(st.blen > i, in_backlog(t)))
            total = total + z3.If(st.blen > i, 1, 0)
        for d in st.ds:
            conj.append(z3.Implies(d.used, z3.Xor(in_backlog(d.tok), in_out(d.tok))))
            total = total + z3.If(d.used, 1, 0)
        for i, t in enumerate(res['toks']):
            conj.append(z3.Implies(res['n'] > i, in_backlog(t)))
            total = total + z3.If(res['n'] > i, 1, 0)
        conj.append(bl2.n + m2.count() == total)
        out.append(tagged('conserve', 'every held or posted token is in the backlog or outstanding afterwards, nothing else', z3.And(conj)))
        nows = getattr(p, 'clock_readings', [])
        if nows:
            last = nows[-1]
            out.append(tagged('deadline', 'nothing that was due at the last clock reading is left outstanding',
                              z3.And([z3.Implies(u, pm_parts(ctx, v)[2] > last) for u, k, v in m2.slots] or [True])))
            out.append(tagged('deadline', 'nothing is re-queued before its deadline',
                              z3.And([z3.Implies(z3.And(d.used, in_backlog(d.tok)), d.dl <= last) for d in st.ds] or [True])))
        # the timer of the iteration in which the loop parked: armed after the last clock reading
        last_clock = max([i for i, e in enumerate(res['log']) if e[0] == 'clock'] or [-1])
        sleeps = [e for i, e in enumerate(res['log']) if e[0] == 'sleep_until' and i > last_clock]
        if sleeps:
            when = sleeps[-1][1].t
            out.append(tagged('deadline', 'C04.f: the timer is armed for the earliest remaining deadline',
                              z3.And([m2.count() > 0] + [z3.Implies(u, pm_parts(ctx, v)[2] >= when) for u, k, v in m2.slots] +
                                     [z3.Or([z3.And(u, pm_parts(ctx, v)[2] == when) for u, k, v in m2.slots] or [False])])))
            out.append(Cover('timer armed'))
        else:
            out.append(tagged('deadline', 'C04.f: no timer only when nothing is outstanding', m2.count() == 0))
        out.append(Cover('something expired and was re-queued', z3.Or([z3.And(d.used, in_backlog(d.tok)) for d in st.ds] or [False])))
        if self.with_request and getattr(self, 'request', 'post') == 'pull':
            # C04: the lease of a delivery handed out by this pull runs from an instant at which the pull was being handled -
            # a clock reading taken after the request was taken from the mailbox (not one left over from before the actor waited)
            log = res['log']
            deq = [i for i, e in enumerate(log) if e[0] == 'dequeue']
            if deq:
                after = [e[1] for i, e in enumerate(log) if e[0] == 'clock' and i > deq[0]]
                for u, k, v in m2.slots:
                    tok, ackv, dl, _att = pm_parts(ctx, v)
                    new = z3.And(u, ackv >= st.next)
                    out.append(tagged('deadline', 'a delivery handed out by the pull expires ack_deadline after a clock reading taken while the pull was handled',
                                      z3.Implies(new, z3.Or([dl == rounded(t + st.ackdl * NS) for t in after] or [z3.BoolVal(False)]))))
                out.append(Cover('the pull handed something out', z3.Or([z3.And(u, pm_parts(ctx, v)[1] >= st.next) for u, k, v in m2.slots] or [False])))
        if self.with_request:
            out.append(Cover('request handled'))
        return out


# ---------------------------------------------------------------------- history from the real constructor (no field of the actor is named)
from interp import concrete_int


class SubscriptionActorHistory(Obligation):
    """SubscriptionActor::start run for real; the spawned actor task is fed a fixed history through its mailbox and the answers are
    compared with the obvious reference.  Nothing of the actor's representation is named: the obligation survives added fields,
    other containers, cached values."""
    tier = 'T3'

    def __init__(self, ctx, id_):
        self.id = id_
        self.desc = ('the subscription actor as started by SubscriptionActor::start, fed Post[m1,m2,m3], Pull(2), Stats, Ack[A1], Stats, Nack[A2], Stats, Pull(10), '
                     'Ack[A1] again, Stats through its mailbox within one second: deliveries in publish order, nacked message re-queued at the tail, fresh ack '
                     'ids, an ack removes exactly its delivery, a stale ack does nothing')
        self.bounds = {'history': 'the 10 requests above', 'time': 'all clock readings within 1 s (no expiry)', 'select! start index': 0}
        self.unroll = 10
        install_tokens(ctx)

    def body(self, ip, p):
        ctx = ip.ctx
        from models_async import ReceiverM, OneshotTx, poll_future
        from props.C16 import default_reply
        ctx.on_enqueue = default_reply
        p.timers_never_fire = True
        p.signals_never_fire = True
        p.clock_span_ns = NS
        p.select_in_order = True
        U = ctx.tok_ufs
        name = sym_name(ctx, p, 'SubscriptionName', 'own')
        secs = p.fresh('ack_deadline_s')
        p.assume(z3.And(secs >= 10, secs <= 600))
        info = mk(ctx, 'SubscriptionInfo', name=name, ack_deadline=S(secs * NS, 'Duration'), push_config=Enum('Option', 0, {}))
        observer = run_to_end(ip.call_fn(ctx.fn('SubscriptionObserver', 'new'), []))
        mstate = Cell(mk_opt(ctx, 'State', 'subscriptions/subscription_manager', subscriptions=MapM([]), next_id=S(p.fresh('s_next'), 'u32')), 'smgr-state')
        delegate = mk(ctx, 'SubscriptionManagerDelegate', state=ArcCell(Cell(LockM('subscription_manager.state', mstate))))
        pstate = Cell(mk_single(ctx, 'PushSubscriptionsRegistryState', MapM([])), 'pstate')
        reg = mk(ctx, 'PushSubscriptionsRegistry', state=ArcCell(Cell(LockM('push_registry.state', pstate))))
        n0 = len(p.log)
        run_to_end(ip.call_fn(ctx.fn('SubscriptionActor', 'start'),
                              [S(p.fresh('iid'), 'u32'), info, ArcTok(p.fresh('topic_tok'), 'Topic'), ArcCell(Cell(observer, 'observer')), reg, delegate]))
        spawned = [e for e in p.log[n0:] if e[0] == 'spawn']
        if len(spawned) != 1:
            raise Unsupported('SubscriptionActor::start spawned %d tasks' % len(spawned))
        task = spawned[0][1]
        ms = [p.fresh('m%d_tok' % i) for i in (1, 2, 3)]
        p.assume(z3.Distinct(ms))
        ev = ctx.src.enum_variants('SubscriptionRequest')
        idx = {n: i for i, (n, _) in enumerate(ev)}
        txs = {}

        def tx(label):
            p.counter += 1
            t = OneshotTx(p.counter)
            txs[label] = t
            return t

        def req(variant, **kw):
            return Enum('SubscriptionRequest', idx[variant], {idx[variant]: tuple(kw[n] for n in ev[idx[variant]][1])})
        # the ack ids the first pull will hand out are not known yet: the later requests are appended once they are
        rx = ReceiverM([req('PostMessages', messages=Seq([ArcTok(t, 'TopicMessage') for t in ms], 3, 'vec')),
                        req('PullMessages', max_count=S(z3.IntVal(2), 'u16'), responder=tx('pull1')),
                        req('GetStats', responder=tx('stats1'))])
        ups = list(task.upvars) if hasattr(task, 'upvars') else None
        if ups is None:
            raise Unsupported('spawned task is not a coroutine value')
        k = [i for i, u in enumerate(ups) if isinstance(u, Opaque) and u.tag == 'mpsc.Receiver']
        if len(k) != 1:
            raise Unsupported('the actor task does not own exactly one mailbox')
        ups[k[0]] = rx
        cell = Cell(Enum(task.name, task.discr, task.payload, ups), 'actor-task')

        def drive():
            r = run_to_end(poll_future(ip, Loc(cell)))
            if r.discr != 1 or rx.items:
                raise Unsupported('the actor task did not park after the requests (ended: %s, left: %d)' % (r.discr == 0, len(rx.items)))
        drive()
        sent = lambda label: getattr(p, 'sent', {}).get(txs[label].cid)
        first = sent('pull1')
        if first is None or first.discr != 0:
            return {'first': first}
        batch1 = first.payload[0][0]
        n1 = concrete_int(batch1.n) if concrete_int(batch1.n) is not None else None
        if n1 != 2:
            return {'first': first, 'n1': batch1.n}
        a1, a2 = [fld(ctx, e, 'PulledMessage', 'ack_id') for e in batch1.elems[:2]]
        rx.items += [req('AcknowledgeMessages', ack_ids=Seq([a1], 1, 'vec'), responder=tx('ack1')),
                     req('GetStats', responder=tx('stats2')),
                     req('ModifyDeadline', deadline_modifications=Seq([mk(ctx, 'DeadlineModification', ack_id=a2, new_deadline=Enum('Option', 0, {}))], 1, 'vec'),
                         responder=tx('nack2')),
                     req('GetStats', responder=tx('stats3')),
                     req('PullMessages', max_count=S(z3.IntVal(10), 'u16'), responder=tx('pull2')),
                     req('AcknowledgeMessages', ack_ids=Seq([a1], 1, 'vec'), responder=tx('ack1again')),
                     req('GetStats', responder=tx('stats4'))]
        drive()
        return {'first': first, 'ms': ms, 'a1': a1, 'a2': a2, 'replies': {k_: sent(k_) for k_ in txs}}

    def post(self, ip, p, res):
        ctx = ip.ctx
        first = res['first']
        out = [Claim('the first pull succeeds', first is not None and first.discr == 0)]
        if 'replies' not in res:
            out.append(Claim('the first pull hands out exactly two deliveries', False))
            return out
        ms, rp = res['ms'], res['replies']
        out.append(Claim('every request was answered', all(v is not None for v in rp.values())))
        if not all(v is not None and v.discr == 0 for v in rp.values()):
            out.append(Claim('every request succeeds', False))
            return out
        tok_of = lambda pm: fld(ctx, pm, 'PulledMessage', 'message').tok
        ack = lambda pm: ack_of(ctx, fld(ctx, pm, 'PulledMessage', 'ack_id'))
        b1 = first.payload[0][0]
        a1, a2 = ack_of(ctx, res['a1']), ack_of(ctx, res['a2'])
        out.append(Claim('pull 1: m1, m2 in publish order, two different ack ids', z3.And(tok_of(b1.elems[0]) == ms[0], tok_of(b1.elems[1]) == ms[1], a1 != a2)))

        def stats(label):
            s_ = rp[label].payload[0][0]
            return (fld(ctx, s_, 'SubscriptionStats', 'outstanding_messages_count').t, fld(ctx, s_, 'SubscriptionStats', 'backlog_messages_count').t)
        for label, want, what in (('stats1', (2, 1), 'after the first pull'), ('stats2', (1, 1), 'after acking A1'), ('stats3', (0, 2), 'after nacking A2'),
                                  ('stats4', (2, 0), 'after the second pull and a stale ack of A1')):
            o, b = stats(label)
            out.append(Claim('%s: %d outstanding, %d in the backlog' % (what, want[0], want[1]), z3.And(o == want[0], b == want[1])))
        b2 = rp['pull2'].payload[0][0]
        out.append(Claim('pull 2 hands out the two remaining messages', b2.n == 2))
        if len(b2.elems) >= 2:
            out.append(Claim('pull 2: m3 first (it was never handed out), then the nacked m2', z3.Implies(b2.n == 2, z3.And(tok_of(b2.elems[0]) == ms[2], tok_of(b2.elems[1]) == ms[1]))))
            out.append(Claim('pull 2 uses fresh ack ids (the nacked delivery does not keep A2)',
                             z3.Implies(b2.n == 2, z3.Distinct(a1, a2, ack(b2.elems[0]), ack(b2.elems[1])))))
        out.append(Cover('reached'))
        return out


class SubscriptionActorExpiryHistory(SubscriptionActorHistory):
    """the same real actor task, a history with the ack deadline passing: Post[m1,m2], Pull(1), time passes (ack deadline + 1 s), Stats,
    Pull(10), stale Ack, Stats"""

    def __init__(self, ctx, id_):
        SubscriptionActorHistory.__init__(self, ctx, id_)
        self.desc = ('the subscription actor as started by SubscriptionActor::start, fed Post[m1,m2], Pull(1); then the ack deadline passes (+1 s) with an empty '
                     'mailbox; Stats, Pull(10), Ack of the old id, Stats: the unacked delivery is back in the backlog (after m2), redelivered under a new ack id, '
                     'and its old ack id is inert')
        self.bounds = {'history': 'the 7 requests above', 'time': 'two bursts, each within 1 s, separated by ack deadline + 1 s', 'select! start index': 0}

    def body(self, ip, p):
        ctx = ip.ctx
        from models_async import ReceiverM, OneshotTx, poll_future
        from props.C16 import default_reply
        ctx.on_enqueue = default_reply
        p.timers_never_fire = True
        p.signals_never_fire = True
        p.clock_span_ns = NS
        p.select_in_order = True
        name = sym_name(ctx, p, 'SubscriptionName', 'own')
        secs = p.fresh('ack_deadline_s')
        p.assume(z3.And(secs >= 10, secs <= 600))
        info = mk(ctx, 'SubscriptionInfo', name=name, ack_deadline=S(secs * NS, 'Duration'), push_config=Enum('Option', 0, {}))
        observer = run_to_end(ip.call_fn(ctx.fn('SubscriptionObserver', 'new'), []))
        mstate = Cell(mk_opt(ctx, 'State', 'subscriptions/subscription_manager', subscriptions=MapM([]), next_id=S(p.fresh('s_next'), 'u32')), 'smgr-state')
        delegate = mk(ctx, 'SubscriptionManagerDelegate', state=ArcCell(Cell(LockM('subscription_manager.state', mstate))))
        pstate = Cell(mk_single(ctx, 'PushSubscriptionsRegistryState', MapM([])), 'pstate')
        reg = mk(ctx, 'PushSubscriptionsRegistry', state=ArcCell(Cell(LockM('push_registry.state', pstate))))
        n0 = len(p.log)
        run_to_end(ip.call_fn(ctx.fn('SubscriptionActor', 'start'),
                              [S(p.fresh('iid'), 'u32'), info, ArcTok(p.fresh('topic_tok'), 'Topic'), ArcCell(Cell(observer, 'observer')), reg, delegate]))
        spawned = [e for e in p.log[n0:] if e[0] == 'spawn']
        if len(spawned) != 1:
            raise Unsupported('SubscriptionActor::start spawned %d tasks' % len(spawned))
        task = spawned[0][1]
        ms = [p.fresh('m%d_tok' % i) for i in (1, 2)]
        p.assume(ms[0] != ms[1])
        ev = ctx.src.enum_variants('SubscriptionRequest')
        idx = {n: i for i, (n, _) in enumerate(ev)}
        txs = {}

        def tx(label):
            p.counter += 1
            t = OneshotTx(p.counter)
            txs[label] = t
            return t

        def req(variant, **kw):
            return Enum('SubscriptionRequest', idx[variant], {idx[variant]: tuple(kw[n] for n in ev[idx[variant]][1])})
        rx = ReceiverM([req('PostMessages', messages=Seq([ArcTok(t, 'TopicMessage') for t in ms], 2, 'vec')),
                        req('PullMessages', max_count=S(z3.IntVal(1), 'u16'), responder=tx('pull1'))])
        ups = list(task.upvars)
        k = [i for i, u in enumerate(ups) if isinstance(u, Opaque) and u.tag == 'mpsc.Receiver']
        if len(k) != 1:
            raise Unsupported('the actor task does not own exactly one mailbox')
        ups[k[0]] = rx
        cell = Cell(Enum(task.name, task.discr, task.payload, ups), 'actor-task')

        def drive():
            r = run_to_end(poll_future(ip, Loc(cell)))
            if r.discr != 1 or rx.items:
                raise Unsupported('the actor task did not park after the requests')
        drive()
        sent = lambda label: getattr(p, 'sent', {}).get(txs[label].cid)
        first = sent('pull1')
        if first is None or first.discr != 0 or concrete_int(first.payload[0][0].n) != 1:
            return {'first': first}
        a1 = fld(ctx, first.payload[0][0].elems[0], 'PulledMessage', 'ack_id')
        # time passes: every later clock reading is at least ack deadline + 1 s after the last one of the first burst
        last = p.clock_readings[-1]
        p.clock_floor = last + secs * NS + NS
        p.clock_span_base = p.clock_floor
        drive()                     # empty mailbox: the expiry arm of the loop runs
        rx.items += [req('GetStats', responder=tx('stats1')),
                     req('PullMessages', max_count=S(z3.IntVal(10), 'u16'), responder=tx('pull2')),
                     req('AcknowledgeMessages', ack_ids=Seq([a1], 1, 'vec'), responder=tx('ack1stale')),
                     req('GetStats', responder=tx('stats2'))]
        drive()
        return {'first': first, 'ms': ms, 'a1': a1, 'replies': {k_: sent(k_) for k_ in txs}}

    def post(self, ip, p, res):
        ctx = ip.ctx
        first = res['first']
        out = [Claim('the first pull hands out exactly one delivery', 'replies' in res)]
        if 'replies' not in res:
            return out
        ms, rp = res['ms'], res['replies']
        if not all(v is not None and v.discr == 0 for v in rp.values()):
            out.append(Claim('every request is answered and succeeds', False))
            return out
        tok_of = lambda pm: fld(ctx, pm, 'PulledMessage', 'message').tok
        ack = lambda pm: ack_of(ctx, fld(ctx, pm, 'PulledMessage', 'ack_id'))
        a1 = ack_of(ctx, res['a1'])
        out.append(Claim('pull 1 hands out m1', tok_of(first.payload[0][0].elems[0]) == ms[0]))

        def stats(label):
            s_ = rp[label].payload[0][0]
            return (fld(ctx, s_, 'SubscriptionStats', 'outstanding_messages_count').t, fld(ctx, s_, 'SubscriptionStats', 'backlog_messages_count').t)
        o, b = stats('stats1')
        out.append(Claim('after the deadline: nothing outstanding, both messages in the backlog', z3.And(o == 0, b == 2)))
        b2 = rp['pull2'].payload[0][0]
        out.append(Claim('pull 2 hands out both messages', b2.n == 2))
        if len(b2.elems) >= 2:
            out.append(Claim('pull 2: m2 first (never handed out), then the expired m1', z3.Implies(b2.n == 2, z3.And(tok_of(b2.elems[0]) == ms[1], tok_of(b2.elems[1]) == ms[0]))))
            out.append(Claim('the redelivery carries a new ack id', z3.Implies(b2.n == 2, z3.Distinct(a1, ack(b2.elems[0]), ack(b2.elems[1])))))
        o, b = stats('stats2')
        out.append(Claim('the old ack id is inert: both redeliveries stay outstanding', z3.And(o == 2, b == 0)))
        out.append(Cover('reached'))
        return out
