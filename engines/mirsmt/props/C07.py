"""C07 - every request terminates: no deadlock between topic and subscription actors.

Decided here: the *wait-for relation between the actor loops*.  Every request variant of both actors is run
through the actor's `receive` coroutine (Tier 3, symbolic state); each await of another actor's mailbox
capacity or reply on any feasible path is an edge "this actor's loop cannot proceed until that actor's loop
does".  With bounded mailboxes a cycle in this relation is a reachable deadlock (saturate the mailboxes on
the cycle); without a cycle, and with no lock held across an await (C10.d), every request handled by an
actor completes after a bounded amount of work of the other actors."""
import z3
from framework import Obligation, Claim, Cover, model_value, run_async, find_values
from values import *
from interp import run_to_end
from models_coll import Seq
from models_core import ok
from models_async import OneshotTx
from models_sync import ArcTok
from props.common import *
from props.C11 import sym_topic_actor
from props.C08 import sym_topic_message
from props.C16 import default_reply

OUTSIDE = ['starvation / fairness of the tokio scheduler', 'the gRPC layer (tonic, h2) and the push loop',
           'the tokio timer behind the blocking Pull wait limit (C07.e decides that the request is bounded by one timer started with it)',
           'more than one caller / one request at a time in the termination obligations C07.d; a full mailbox (that is the known finding)']
ASSUMPTIONS = ['an actor loop handles one request at a time (A1): while it awaits inside a handler it takes nothing else from its mailbox',
               'a bounded mailbox can be saturated by concurrent clients']


class WaitFor(Obligation):
    tier = 'T3'

    def __init__(self, ctx, actor):
        self.actor = actor
        self.id = 'C07.a-waitfor-' + actor
        self.desc = '%s actor: for every request variant, which other actor\'s mailbox capacity / reply its loop awaits while handling it' % actor
        self.bounds = {'variants': 'all', 'attached_subscriptions': 1}
        self.unroll = 6
        install_tokens(ctx)
        ctx.waitfor = getattr(ctx, 'waitfor', {})
        ctx.waitfor[actor] = set()

    def body(self, ip, p):
        ctx = ip.ctx
        ctx.on_enqueue = default_reply
        p.counter += 1
        tx = OneshotTx(p.counter)
        if self.actor == 'subscription':
            ev = ctx.src.enum_variants('SubscriptionRequest')
            idx = p.choose(len(ev), 'variant')
            st = sym_actor(ctx, p, 1, 1)
            name = ev[idx][0]
            payload = {'PostMessages': (Seq([ArcTok(p.fresh('m'), 'TopicMessage')], 1),), 'GetInfo': (tx,), 'GetStats': (tx,), 'Delete': (tx,),
                       'PullMessages': (S(p.fresh('mx'), 'u16'), tx), 'AcknowledgeMessages': (Seq([ack_id(ctx, p.fresh('a'))], 1), tx),
                       'ModifyDeadline': (Seq([mk(ctx, 'DeadlineModification', ack_id=ack_id(ctx, p.fresh('a')), new_deadline=Enum('Option', 0, {}))], 1), tx)}[name]
            req = Enum('SubscriptionRequest', idx, {idx: payload})
            cell = st.cell
            fn = ctx.fn('SubscriptionActor', 'receive')
        else:
            ev = ctx.src.enum_variants('TopicRequest')
            idx = p.choose(len(ev), 'variant')
            cell, ents, dele, mstate, own, oname, other_u, reg = sym_topic_actor(ctx, p, 1)
            name = ev[idx][0]
            msg, _, _ = sym_topic_message(ctx, p, 0)
            payload = {'PublishMessages': (Seq([msg], 1), tx), 'AttachSubscription': (ArcTok(p.fresh('s'), 'Subscription'), tx),
                       'ListSubscriptions': (mk(ctx, 'Paging', size=S(z3.IntVal(10), 'usize'), offset=Enum('Option', 0, {})), tx),
                       'RemoveSubscription': (sym_name(ctx, p, 'SubscriptionName', 'rm'), tx), 'Delete': (tx,)}[name]
            req = Enum('TopicRequest', idx, {idx: payload})
            fn = ctx.fn('TopicActor', 'receive')
        coro = run_to_end(ip.call_fn(fn, [Ref(Loc(cell), True), req]))
        run_async(ip, p, coro, budget=0)
        edges = set()
        for e in p.log:
            if e[0] == 'await' and e[1] == 'capacity':
                edges.add((name, 'capacity', e[2]))
            if e[0] == 'enqueue' and any(x[0] == 'await' and x[1] == 'reply' for x in p.log):
                edges.add((name, 'reply', e[1]))
        return {'variant': name, 'edges': edges}

    def post(self, ip, p, res):
        # the path is feasible (we are here): record its edges
        ip.ctx.waitfor[self.actor] |= res['edges']
        out = [Cover('variant %s' % res['variant'])]
        for e in res['edges']:
            out.append(Cover('%s awaits %s of the %s actor' % (e[0], e[1], e[2])))
        return out


class Acyclic(Obligation):
    id = 'C07.b-no-wait-cycle'
    tier = 'T3'
    desc = 'the wait-for relation between the actor loops (from C07.a) has no cycle: no set of saturated mailboxes can leave the actors waiting for each other'
    bounds = {'actors': ['topic', 'subscription']}

    def body(self, ip, p):
        return dict(ip.ctx.waitfor)

    def post(self, ip, p, res):
        out = [Cover('relation computed', True)]
        acts = sorted(res)
        found = False
        for i, a in enumerate(acts):
            for b in acts[i:]:
                ab = sorted(set(e[0] for e in res[a] if e[2] == b))
                ba = sorted(set(e[0] for e in res[b] if e[2] == a))
                if ab and ba:
                    found = True
                    out.append(Claim('no wait-for cycle: %s[%s] <-> %s[%s]' % (a, '/'.join(ab), b, '/'.join(ba)), False))
        if not found:
            out.append(Claim('no wait-for cycle between actor loops', True))
        return out

    def model_info(self, p, m, res):
        return {'class': 'actor-wait-cycle', 'wait_for': {a: [list(e) for e in sorted(es)] for a, es in (res or {}).items()}}


def native_replay(ob_id, v):
    if ob_id == 'C07.b-no-wait-cycle':
        return {'judge': 'actor_deadlock', 'scenario': 'actor_deadlock', 'lib': True}
    return None


class LoopReceives(Obligation):
    pass


def _loop_receives(ctx):
    # C07.c: the subscription actor loop takes the next request from its mailbox in every state (any backlog length,
    # any outstanding set): there is no condition under which it stops serving its mailbox
    from props.actor_steps import ActorLoop, tagged, filt
    ob = ActorLoop(ctx, 1, 1, 1, True, 'receives', 'C07.c-loop-always-receives')
    ob.lazy_len = True
    ob.desc = 'the subscription actor loop takes the request out of its mailbox and parks again, for every backlog length and outstanding set (no state makes it stop serving)'
    base_claims = ob.claims

    def claims(ip, p, res):
        return [tagged('receives', 'the loop parks (it neither ends nor panics)', res['parked']),
                tagged('receives', 'the request was taken from the mailbox', res['left'] == 0), Cover('request handled')]
    ob.claims = claims
    return ob


def obligations(ctx, cfg):
    return [WaitFor(ctx, 'topic'), WaitFor(ctx, 'subscription'), Acyclic(), _loop_receives(ctx)]


class TopicActorLoop(Obligation):
    """TopicActor::start's loop (`while let Some(request) = receiver.recv().await { actor.receive(request).await }`) driven with
    one request of each kind in the mailbox while handles to the topic still exist: it handles the request, answers, and parks again."""
    tier = 'T3'

    def __init__(self, ctx, variant, id_prefix='C07.c-topic-loop'):
        self.variant = variant
        self.id = '%s-%s' % (id_prefix, variant)
        self.desc = ('the topic actor loop with one %s request in its mailbox and handles to the topic still alive: the request is taken and answered, '
                     'and the loop waits for the next request (it never stops serving while it can be reached)' % variant)
        self.bounds = {'attached_subscriptions': 2, 'requests_in_mailbox': 1}
        self.unroll = 6
        install_tokens(ctx)

    def body(self, ip, p):
        ctx = ip.ctx
        from props.C11 import sym_topic_actor
        from props.C08 import sym_topic_message
        from props.C16 import default_reply
        from models_async import ReceiverM, poll_future, OneshotTx
        ctx.on_enqueue = default_reply
        cell, ents, dele, mstate, own, oname, other_u, reg = sym_topic_actor(ctx, p, 2)
        p.counter += 1
        tx = OneshotTx(p.counter)
        ev = ctx.src.enum_variants('TopicRequest')
        idx = [i for i, (n, _) in enumerate(ev) if n == self.variant][0]
        if self.variant == 'AttachSubscription':
            payload = (ArcTok(p.fresh('new_sub_tok'), 'Subscription'), tx)
        elif self.variant == 'RemoveSubscription':
            payload = (sym_name(ctx, p, 'SubscriptionName', 'rm'), tx)
        elif self.variant == 'PublishMessages':
            msg, _, _ = sym_topic_message(ctx, p, 0)
            payload = (Seq([msg], 1), tx)
        else:
            payload = (tx,)
        nfields = len(ev[idx][1]) if isinstance(ev[idx][1], (list, tuple)) else None
        req = Enum('TopicRequest', idx, {idx: payload})
        rx_cell = Cell(ReceiverM([req]), 'mailbox')
        body_fn = None
        for name, f in ctx.dump.functions.items():
            if name.endswith('>::start::{closure#0}') and 'topic_actor' in name:
                body_fn = f
        if body_fn is None:
            raise Unsupported('topic actor loop body not found')
        body_fn.parse()
        byname = {'receiver': rx_cell.v, 'actor': cell.v}
        nup = max(body_fn.upvar_names) + 1 if body_fn.upvar_names else 0
        upvars = []
        for i in range(nup):
            nm = body_fn.upvar_names.get(i)
            if nm not in byname:
                raise Unsupported('topic actor loop captures %r' % (nm,))
            upvars.append(byname[nm])
        coro = Enum('coroutine:' + body_fn.name, 0, {}, upvars)
        ccell = Cell(coro, 'topic-actor-loop')
        r = None
        for _ in range(4):
            r = run_to_end(poll_future(ip, Loc(ccell)))
            if r.discr == 0:
                break
            if not any(e[0] == 'may-pend' for e in p.log[-3:]):
                break
        # the mailbox lives inside the coroutine now (moved in): find it
        from framework import find_values
        rxs = find_values(ccell.v, ReceiverM)
        left = len(rxs[0].items) if rxs else None
        return {'parked': r.discr == 1, 'left': left, 'log': list(p.log), 'tx': tx}

    def post(self, ip, p, res):
        sent = getattr(p, 'sent', {})
        return [Claim('the loop waits for the next request (it neither ends nor panics) while the topic can still be reached', res['parked']),
                Claim('the request was taken from the mailbox', res['left'] == 0),
                Claim('the request was answered', res['tx'].cid in sent),
                Cover('request handled')]


_obligations_c07 = obligations


def obligations(ctx, cfg):
    from props.races import RequestTerminates
    from props.common import ack_id, mk
    from models_coll import Seq
    mk_ids = lambda ctx_, p: [Seq([ack_id(ctx_, p.fresh('id'))], 1, 'vec')]
    mk_mods = lambda ctx_, p: [Seq([mk(ctx_, 'DeadlineModification', ack_id=ack_id(ctx_, p.fresh('id')), new_deadline=Enum('Option', 0, {}))], 1, 'vec')]
    mk_u16 = lambda ctx_, p: [S(p.fresh('max'), 'u16')]
    none = lambda ctx_, p: []
    term = [RequestTerminates(ctx, 'delete', none), RequestTerminates(ctx, 'pull_messages', mk_u16),
            RequestTerminates(ctx, 'acknowledge_messages', mk_ids), RequestTerminates(ctx, 'modify_ack_deadlines', mk_mods),
            RequestTerminates(ctx, 'get_info', none)]
    if cfg['tier'] == 'thorough':
        # every select! start index, topic gone (the case in which the deletion signal is the only way out)
        t = RequestTerminates(ctx, 'delete', none, topic_alive=False)
        t.all_select_orders = True
        t.id += '-topic-gone-all-select-orders'
        t.bounds = dict(t.bounds, **{'select! start index': 'all'})
        term.append(t)
    from props.races import TopicRequestTerminates
    from models_sync import ArcTok, Opaque
    from props.common import sym_name
    term += [TopicRequestTerminates(ctx, 'publish_messages', lambda c, p: [Seq([__import__('props.C08', fromlist=['x']).sym_topic_message(c, p, 0)[0]], 1, 'vec')]),
             TopicRequestTerminates(ctx, 'attach_subscription', lambda c, p: [ArcTok(p.fresh('s'), 'Subscription')]),
             TopicRequestTerminates(ctx, 'remove_subscription', lambda c, p: [sym_name(c, p, 'SubscriptionName', 'n')]),
             TopicRequestTerminates(ctx, 'delete', none)]
    return _obligations_c07(ctx, cfg) + [TopicActorLoop(ctx, v) for v in ('Delete', 'PublishMessages', 'AttachSubscription', 'RemoveSubscription')] + term


def _pull_wait_limit(ctx):
    """the unary Pull handler ends at its server-side wait limit however often it is woken for nothing: one timer per request"""
    from props.C10 import Handler, req_pull

    class PullWaitLimit(Handler):
        def __init__(self, ctx_):
            Handler.__init__(self, ctx_, 'subscriber', 'pull', req_pull)
            self.id = 'C07.e-pull-wait-limit'
            self.desc = ('Pull handler on a subscription that keeps answering with nothing: however often the consumer is woken, the request is bounded by ONE '
                         'wait-limit timer started when the request began (a wake-up that finds nothing does not restart the clock), and it returns once that timer fires')
            self.bounds = {'wake-ups that find nothing': '<= unroll', 'topics': 1, 'subscriptions': 1}

        def post(self, ip, p, res):
            out = Handler.post(self, ip, p, res)
            log = res['log']
            timers = [e for e in log if e[0] in ('sleep', 'sleep_until')]
            pulls = [i for i, e in enumerate(log) if e[0] == 'enqueue']
            out.append(Claim('at most one wait-limit timer per request', len(timers) <= 1))
            if timers and len(pulls) >= 2:
                ti = log.index(timers[0])
                out.append(Claim('the wait-limit timer is started before the consumer first waits (not re-armed after a wake-up)', ti < pulls[1]))
            out.append(Cover('woken for nothing at least once', len(pulls) >= 2))
            return out
    return PullWaitLimit(ctx)


_obligations_c07b = obligations


def obligations(ctx, cfg):
    return _obligations_c07b(ctx, cfg) + [_pull_wait_limit(ctx)]
