"""C06 - waiting consumers are woken: the actor's notification duty (handler level)."""
from props.actor_steps import *

OUTSIDE = ['more than two consumers / two availability events per race (Tier 4 bound); cancelled consumers',
           'interleavings finer than shared-operation granularity inside one actor step (the actor handles one request at a time: A1)']
ASSUMPTIONS = ['tokio Notify::notify_one stores a permit when no waiter is registered (documented contract)']


def obligations(ctx, cfg):
    q = cfg['tier'] == 'quick'
    no, nb, k = (2, 3, 2) if q else (4, 5, 3)
    return [StepPost(ctx, 1, nb, k, 'notify', 'C06.a-post'),
            StepPull(ctx, 1, nb, 0, 'notify', 'C06.a-pull'),
            StepModify(ctx, no, 2, k, 'notify', 'C06.a-modify'),
            StepExpire(ctx, no, 2, 0, 'notify', 'C06.a-expire')]


# ---------------------------------------------------------------------- C06.d: the check-then-wait race (Tier 4)
import z3
from framework import Obligation, Claim, Cover, model_value
from values import *
from interp import Interp, run_to_end
from t4 import NotifyT4, Activity, run_activities, future_activity
from models_core import ok
from models_async import OneshotTx, Leaf
from models_sync import ArcCell, ArcTok
from models_str import StrTok
from framework import find_values
from props.service import sym_managers, abstract_name_parsers, proto, request, start_handler


class PullRace(Obligation):
    tier = 'T4'

    def __init__(self, ctx, consumers=1, events=('post',), n_out=1):
        self.consumers, self.events, self.n_out = consumers, events, n_out
        self.id = 'C06.d-%dc-%s' % (consumers, '+'.join(events))
        self.desc = ('%d blocked unary Pull handler(s) (real handler MIR incl. select!) interleaved at every shared operation (signal creation, '
                     'mailbox send, signal poll) with %s handled atomically by the actor: no consumer is left parked while the backlog is non-empty'
                     % (consumers, ' and '.join(events)))
        self.bounds = {'consumers': consumers, 'events': list(events), 'backlog_before': '<= 1', 'outstanding_before': '<= %d' % n_out, 'granularity': 'Notify call / mailbox send / actor step'}
        self.max_paths = 200000
        self.unroll = 8

    def body(self, ip, p):
        ctx = ip.ctx
        install_tokens(ctx)
        p.timers_never_fire = True
        st = sym_actor(ctx, p, self.n_out, 1, deleted=False)
        # one shared observer (the consumers' signal and the actor's notify are the same Notify)
        notify = NotifyT4('messages_available')
        obs_cell = Cell(mk(ctx, 'SubscriptionObserver', notify_messages_available=notify,
                           deleted_recv=Leaf('deleted', 0), deleted_send=Opaque('deleted_send')), 'shared-observer')
        a = st.cell.v
        order = ctx.src.struct_fields('SubscriptionActor')
        fs = list(a.fields)
        fs[order.index('observer')] = ArcCell(obs_cell)
        st.cell.v = Agg(a.name, fs)
        default_sub = ctx.tok_kinds['Subscription']

        def sub_pointee(ip_, tok):
            v = default_sub(ip_, tok)
            o = ctx.src.struct_fields('Subscription', 'subscriptions/subscription')
            f2 = list(v.fields)
            f2[o.index('observer')] = ArcCell(obs_cell)
            return Agg(v.name, f2)
        ctx.tok_kinds['Subscription'] = sub_pointee
        h = sym_managers(ctx, p)
        U = ctx.tok_ufs
        stok = h['subs'][0][1]
        p.assume(h['subs'][0][0])
        actor_ip = Interp(ctx, p, unroll=8)       # actor steps are atomic: no scheduling points inside

        def on_enqueue(ip_, sender, req):
            ev = ip_.src.enum_variants('SubscriptionRequest')
            variant = ev[req.discr][0]
            if variant != 'PullMessages':
                raise Unsupported('unexpected request %s' % variant)
            mx, tx = req.payload[req.discr]
            r = run_to_end(actor_ip.call_fn(ctx.fn('SubscriptionActor', 'pull_messages'), [Ref(Loc(st.cell), True), mx]))
            replies = getattr(p, 'replies', {})
            replies[tx.cid] = r
            p.replies = replies
        ctx.on_enqueue = on_enqueue
        acts = []
        for c in range(self.consumers):
            cip = Interp(ctx, p, unroll=8)
            regname = mk(ctx, 'SubscriptionName', project_id=StrTok(U['sub_proj'](stok)), subscription_id=StrTok(U['sub_id'](stok)))
            cip.hooks[r'^parse_subscription_name$'] = lambda ip_, callee, args, regname=regname: (ok(regname),)
            mx = p.fresh('max_messages%d' % c)
            p.assume(z3.And(mx >= 1, mx < (1 << 31)))
            req = proto(ctx, 'PullRequest', subscription=StrTok(p.fresh('name_field')), return_immediately=S(z3.BoolVal(False), 'bool'),
                        max_messages=S(mx, 'i32'))
            fut = start_handler(cip, p, 'subscriber', 'pull', h['subscriber'], request(req))
            act = Activity('consumer%d' % c, cip)
            cip.activity = act
            act.gen = future_activity(act, Loc(Cell(fut, 'pull-future')), max_polls=8)
            acts.append(act)
        added = []
        for i, evk in enumerate(self.events):
            eip = Interp(ctx, p, unroll=8)
            act = Activity('%s%d' % (evk, i), eip)
            tok = p.fresh('new_tok%d' % i)
            for d in st.ds:
                p.assume(tok != d.tok)
            for b in st.btoks:
                p.assume(tok != b)
            for t0 in added:
                p.assume(tok != t0)
            added.append(tok)

            def gen(act=act, tok=tok):
                p.effect('op', act.name, 'actor handles PostMessages')
                yield ('sched', 'post')
                run_to_end(actor_ip.call_fn(ctx.fn('SubscriptionActor', 'post_messages'),
                                            [Ref(Loc(st.cell), True), Seq([ArcTok(tok, 'TopicMessage')], 1, 'vec')]))
                return None
            act.gen = gen()
            acts.append(act)
        # the name each consumer asks for is the registered subscription
        from t4 import prime
        prime(acts)
        steps = run_activities(p, acts)
        return {'st': st, 'acts': acts, 'stok': stok, 'notify': notify}

    def post(self, ip, p, res):
        ctx = ip.ctx
        st, acts = res['st'], res['acts']
        f = actor_fields(ctx, st.cell.v)
        consumers = acts[:self.consumers]
        out = [Claim('every availability event was handled', all(a.state == 'done' for a in acts[self.consumers:]))]
        parked = [a for a in consumers if a.state == 'parked']
        done = [a for a in consumers if a.state == 'done']
        for a in consumers:
            out.append(Claim('%s is done or parked at the end of the schedule' % a.name, a.state in ('done', 'parked')))
        if parked:
            out.append(Claim('no consumer is left waiting while a message is available (and no wake-up is pending)',
                             z3.Or(f['backlog'].n == 0, z3.BoolVal(res['notify'].permit))))
            out.append(Cover('a consumer is still parked at the end (nothing left for it)'))
        for a in done:
            r = a.result
            if isinstance(r, Enum) and r.name == 'Result' and isinstance(r.discr, int) and r.discr == 0:
                resp = r.payload[0][0].fields[0]
                order = ctx.src.struct_fields('PullResponse', 'pubsub_proto_generated')
                msgs = resp.fields[order.index('received_messages')]
                out.append(Claim('%s returned a non-empty response (no return_immediately, timer not fired)' % a.name, msgs.n >= 1))
        if done:
            out.append(Cover('a consumer was woken by the event and returned', any(a.polls >= 2 for a in done)))
            out.append(Cover('a consumer found the message on its first pull', any(a.polls == 1 for a in done)))
        return out

    def model_info(self, p, m, res):
        return {'class': 'lost-wakeup', 'schedule': [(e[1], e[2]) for e in p.log if e[0] == 'op']}


def _consumer_gone(ctx):
    # only the wake-up duty matters here (what else happens to a pull whose consumer vanished is C03.d / C16.b)
    ob = ReceiveDropped(ctx, 'PullMessages', id_='C06.g-pull-consumer-gone')
    ob.desc = ('receive(PullMessages) whose consumer (which had consumed a wake-up to send it) is already gone: messages still in the backlog afterwards are '
               'signalled to the other consumers')
    base = ob.post

    def post(ip, p, res):
        return [c for c in base(ip, p, res) if isinstance(c, Cover) or 'signalled' in c.label or 'invariant' in c.label]
    ob.post = post
    return ob


_old_c06 = obligations


def obligations(ctx, cfg):
    from props.races import ConsumerRace
    obs = _old_c06(ctx, cfg) + [_consumer_gone(ctx), PullRace(ctx, 1, ('post',)),
                                ConsumerRace(ctx, 'C06.e-race-pull-nack', ['pull'], ['nack'], n_out=1, n_back=0),
                                ConsumerRace(ctx, 'C06.e-race-pull-expire', ['pull'], ['expire'], n_out=1, n_back=0),
                                ConsumerRace(ctx, 'C06.e-race-stream-post', ['stream'], ['post'], n_out=0, n_back=0),
                                ConsumerRace(ctx, 'C06.f-stalled-stream-then-pull-post', ['stream', 'pull'], ['post'], n_out=0, n_back=1, stall_after=1, backlog_exact=1, first=(0,))]
    if cfg['tier'] == 'thorough':
        obs += [PullRace(ctx, 1, ('post', 'post')),
                ConsumerRace(ctx, 'C06.e-race-pull-then-pull-post', ['pull', 'pull'], ['post'], n_out=0, n_back=0, first=(0,)),
                ConsumerRace(ctx, 'C06.e-race-stream-then-pull-post', ['stream', 'pull'], ['post'], n_out=0, n_back=0, first=(0,)),
                ConsumerRace(ctx, 'C06.e-race-stream-nack', ['stream'], ['nack'], n_out=1, n_back=0),
                ConsumerRace(ctx, 'C06.e-race-stream-expire', ['stream'], ['expire'], n_out=1, n_back=0),
                ConsumerRace(ctx, 'C06.f-stalled-stream-pull-post', ['stream', 'pull'], ['post'], n_out=0, n_back=1, stall_after=1, backlog_exact=1),
                ConsumerRace(ctx, 'C06.e-race-pull-post-nack', ['pull'], ['post', 'nack'], n_out=1, n_back=0)]
    return obs
