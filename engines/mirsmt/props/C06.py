"""C06 - waiting consumers are woken: the actor's notification duty (handler level)."""
from props.actor_steps import *

OUTSIDE = ["the interleaving of the availability event with the consumer's check-then-wait (two tasks)",
           'hand-on of a wake-up between several consumers; cancelled consumers; the async_stream loop of StreamingPull']
ASSUMPTIONS = ['tokio Notify::notify_one stores a permit when no waiter is registered (documented contract)']


def obligations(ctx, cfg):
    q = cfg['tier'] == 'quick'
    no, nb, k = (2, 3, 2) if q else (4, 5, 3)
    return [StepPost(ctx, 1, nb, k, 'notify', 'C06.a-post'),
            StepPull(ctx, 1, nb, 0, 'notify', 'C06.a-pull'),
            StepModify(ctx, no, 2, k, 'notify', 'C06.a-modify'),
            StepExpire(ctx, no, 2, 0, 'notify', 'C06.a-expire')]
