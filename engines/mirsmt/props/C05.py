"""C05 - ModifyAckDeadline replaces the deadline; zero means nack."""
import z3
from props.actor_steps import *
from framework import Obligation, Claim, Cover
from values import *
from interp import run_to_end
from models_sync import StatusV

NS = 1_000_000_000
OUTSIDE = []
ASSUMPTIONS = []


class C05a(Obligation):
    id = 'C05.a'
    tier = 'T1'
    desc = 'parse_deadline_extension_duration: <0 InvalidArgument, 0 None, 1..599 n s, >=600 600 s (all i32)'
    bounds = {'n': 'all i32'}

    def __init__(self, ctx):
        self.fn = ctx.free_fn('parse_deadline_extension_duration')

    def body(self, ip, p):
        n = p.fresh('n')
        p.assume(z3.And(n >= -(1 << 31), n < (1 << 31)))
        r = run_to_end(ip.call_fn(self.fn, [S(n, 'i32')]))
        return n, r

    def post(self, ip, p, res):
        n, r = res
        out = []
        if r.discr == 1:
            st = r.payload[1][0]
            out.append(Claim('err-iff-negative', n < 0))
            out.append(Claim('err-code', isinstance(st, StatusV) and st.code == 'invalid_argument'))
            out.append(Cover('negative reachable', n == -(1 << 31)))
        else:
            o = r.payload[0][0]
            out.append(Claim('ok-implies-nonneg', n >= 0))
            if o.discr == 0:
                out.append(Claim('none-iff-zero', n == 0))
                out.append(Cover('zero reachable'))
            else:
                d = o.payload[1][0]
                out.append(Claim('some-positive', n > 0))
                out.append(Claim('duration', d.t == z3.If(n >= 600, 600, n) * NS))
                out.append(Cover('599 reachable', n == 599))
                out.append(Cover('600 reachable', n == 600))
                out.append(Cover('i32::MAX reachable', n == (1 << 31) - 1))
        return out

    def model_info(self, p, m, res):
        from framework import model_value
        return {'n': model_value(m, res[0])} if res else {}


def obligations(ctx, cfg):
    q = cfg['tier'] == 'quick'
    n, k = (3, 2) if q else (4, 3)
    return [C05a(ctx), TrackerModify(ctx, n, k), StepModify(ctx, n, 2, k, 'modify', 'C05.d')]


# ---------------------------------------------------------------------- handler level: the instant the deadline is counted from
from framework import run_async, find_values, model_value
from models_coll import Seq
from models_core import ok
from models_str import StrTok, _tok_parse_ok, _tok_parse_val
from models_async import StreamingM, MergeM, poll_stream_next
from props.service import sym_managers, proto, request, start_handler, status_code
from props.C16 import default_reply


def _mod_fields(ctx, m):
    """(ack id term, has_deadline term/bool, deadline term or None) of a DeadlineModification value"""
    a = ack_of(ctx, fld(ctx, m, 'DeadlineModification', 'ack_id'))
    nd = fld(ctx, m, 'DeadlineModification', 'new_deadline')
    d = nd.discr if not isinstance(nd.discr, int) else z3.IntVal(nd.discr)
    dl = None
    if 1 in nd.payload:
        dl = fld(ctx, nd.payload[1][0], 'AckDeadline', 'time').t
    return a, d, dl


class ParseModifications(Obligation):
    id = 'C05.b-parse-modifications'
    tier = 'T1'
    desc = ('parse_deadline_modifications(now, ids, seconds): element i = (ids[i], seconds[i]); 0 -> nack, n>0 -> deadline = AckDeadline(now + min(n, 600) s); '
            'Err(InvalidArgument) iff some id is malformed or some seconds value is negative; order and count preserved')

    def __init__(self, ctx, n=2):
        self.n = n
        self.bounds = {'modifications': n, 'seconds': 'all i32', 'now': 'any instant'}
        self.unroll = n + 3
        install_tokens(ctx)

    def body(self, ip, p):
        ctx = ip.ctx
        now = p.fresh('now')
        p.assume(z3.And(E() >= 0, now >= E(), now - E() < (1 << 62) * 1000))
        ids = [StrTok(p.fresh('mod_ack%d' % i)) for i in range(self.n)]
        secs = [S(p.fresh('mod_secs%d' % i), 'i32') for i in range(self.n)]
        for s_ in secs:
            p.assume(z3.And(s_.t >= -(1 << 31), s_.t < (1 << 31)))
        k = p.fresh('n_mods')
        p.assume(z3.And(k >= 0, k <= self.n))
        r = run_to_end(ip.call_fn(ctx.free_fn('parse_deadline_modifications'),
                                  [S(now, 'Instant'), Ref(Loc(Cell(Seq(ids, k, 'vec')))), Ref(Loc(Cell(Seq(secs, k, 'vec'))))]))
        return {'now': now, 'ids': ids, 'secs': secs, 'k': k, 'ret': r}

    def post(self, ip, p, res):
        ctx = ip.ctx
        r, k, now = res['ret'], res['k'], res['now']
        bad = z3.Or([z3.And(k > i, z3.Or(z3.Not(_tok_parse_ok(res['ids'][i].tok)), res['secs'][i].t < 0)) for i in range(self.n)])
        out = []
        if r.discr == 1:
            st = r.payload[1][0]
            out.append(Claim('rejected only if an id is malformed or a seconds value is negative', bad))
            out.append(Claim('rejection is InvalidArgument', isinstance(st, StatusV) and st.code == 'invalid_argument'))
            out.append(Cover('rejected'))
            return out
        seq = r.payload[0][0]
        out.append(Claim('accepted only if every element is well-formed', z3.Not(bad)))
        out.append(Claim('one modification per element', seq.n == k))
        for i, m in enumerate(seq.elems):
            a, d, dl = _mod_fields(ctx, m)
            n = res['secs'][i].t
            conj = [a == _tok_parse_val(res['ids'][i].tok), (d == 0) == (n == 0)]
            if dl is not None:
                conj.append(z3.Implies(n > 0, dl == rounded(now + z3.If(n >= 600, 600, n) * NS)))
            out.append(Claim('element %d: same ack id; 0 -> nack; n > 0 -> now + min(n, 600) s (rounded as every deadline)' % i, z3.Implies(k > i, z3.And(conj))))
        out.append(Cover('accepted with a nack and an extension', z3.And(k == 2, res['secs'][0].t == 0, res['secs'][1].t > 600) if self.n >= 2 else k == 1))
        return out

    def model_info(self, p, m, res):
        return {'secs': [model_value(m, s.t) for s in res['secs']], 'k': model_value(m, res['k'])} if res else {}


class HandlerBaseInstant(Obligation):
    tier = 'T3'

    def __init__(self, ctx, streaming):
        self.streaming = streaming
        self.id = 'C05.e-%s-base-instant' % ('streaming' if streaming else 'unary')
        self.desc = ('%s: the ModifyDeadline request handed to the subscription carries deadline = AckDeadline(t + min(n, 600) s) for a clock reading t taken '
                     'after this request was received (not an earlier one), nack for n = 0, same ack id'
                     % ('StreamingPull control stream (second message on an open stream)' if streaming else 'ModifyAckDeadline handler'))
        self.bounds = {'modifications': 1, 'seconds': 'all i32 >= 0', 'time before the request': 'arbitrary'}
        self.unroll = 6
        install_tokens(ctx)

    def body(self, ip, p):
        ctx = ip.ctx
        ctx.on_enqueue = default_reply
        h = sym_managers(ctx, p)
        p.assume(h['subs'][0][0])
        stok = h['subs'][0][1]
        U = ctx.tok_ufs
        regname = mk(ctx, 'SubscriptionName', project_id=StrTok(U['sub_proj'](stok)), subscription_id=StrTok(U['sub_id'](stok)))
        ip.hooks[r'^parse_subscription_name$'] = lambda ip_, callee, args: (ok(regname),)
        idtok = p.fresh('mod_ack')
        p.assume(_tok_parse_ok(idtok))
        n = p.fresh('mod_secs')
        p.assume(z3.And(n >= 0, n < (1 << 31)))
        mark = None
        if self.streaming:
            mom = p.fresh('max_outstanding_messages')
            p.assume(z3.And(mom >= 1, mom < 65536))
            first = proto(ctx, 'StreamingPullRequest', subscription=StrTok(p.fresh('name_field')), ack_ids=Seq.empty(), modify_deadline_seconds=Seq.empty(),
                          modify_deadline_ack_ids=Seq.empty(), max_outstanding_messages=S(mom, 'i64'), max_outstanding_bytes=S(p.fresh('mob'), 'i64'))
            second = proto(ctx, 'StreamingPullRequest', subscription=StrTok(p.fresh('empty_name')), ack_ids=Seq.empty(),
                           modify_deadline_seconds=Seq([S(n, 'i32')], 1, 'vec'), modify_deadline_ack_ids=Seq([StrTok(idtok)], 1, 'vec'),
                           max_outstanding_messages=S(z3.IntVal(0), 'i64'), max_outstanding_bytes=S(z3.IntVal(0), 'i64'))
            from models_str import _tok_len
            p.assume(_tok_len(second.fields[ctx.src.struct_fields('StreamingPullRequest', 'pubsub_proto_generated').index('subscription')].tok) == 0)
            fut = start_handler(ip, p, 'subscriber', 'streaming_pull', h['subscriber'], request(StreamingM([first, second])))
            res, _ = run_async(ip, p, fut, budget=0)
            if res.discr != 0:
                return {'setup_failed': True}
            control = find_values(res, MergeM)[0].a
            for _ in range(4):
                r = run_to_end(poll_stream_next(ip, control))
                if r.discr == 1:
                    break
            ret = None
        else:
            req = proto(ctx, 'ModifyAckDeadlineRequest', subscription=StrTok(p.fresh('name_field')), ack_ids=Seq([StrTok(idtok)], 1, 'vec'),
                        ack_deadline_seconds=S(n, 'i32'))
            fut = start_handler(ip, p, 'subscriber', 'modify_ack_deadline', h['subscriber'], request(req))
            ret, _ = run_async(ip, p, fut, budget=0)
        return {'log': list(p.log), 'n': n, 'idtok': idtok, 'ret': ret}

    def post(self, ip, p, res):
        ctx = ip.ctx
        if res.get('setup_failed'):
            return [Claim('stream set up', False)]
        log = res['log']
        ev = ip.src.enum_variants('SubscriptionRequest')
        start = 0
        if self.streaming:
            items = [i for i, e in enumerate(log) if e[0] == 'stream-item']
            # the first message is consumed by the handler itself; the control stream takes the second
            start = items[-1] if items else len(log)
        enq = [(i, e) for i, e in enumerate(log) if e[0] == 'enqueue' and e[1] == 'subscription' and ev[e[3].discr][0] == 'ModifyDeadline']
        out = [Claim('exactly one ModifyDeadline request reached the subscription', len(enq) == 1)]
        if len(enq) != 1:
            return out
        i_enq, e = enq[0]
        seq = e[3].payload[e[3].discr][0]
        out.append(Claim('one modification', seq.n == 1))
        a, d, dl = _mod_fields(ctx, seq.elems[0])
        n = res['n']
        out.append(Claim('same ack id', a == _tok_parse_val(res['idtok'])))
        out.append(Claim('0 -> nack, n > 0 -> extension', (d == 0) == (n == 0)))
        readings = [x[1] for i, x in enumerate(log) if x[0] == 'clock' and start <= i < i_enq]
        if dl is not None:
            out.append(Claim('the deadline is counted from a clock reading taken after this request was received',
                             z3.Implies(n > 0, z3.Or([dl == rounded(t + z3.If(n >= 600, 600, n) * NS) for t in readings] or [z3.BoolVal(False)]))))
        out.append(Cover('extension', n > 0))
        out.append(Cover('nack', n == 0))
        return out

    def model_info(self, p, m, res):
        return {'class': 'deadline-base-instant', 'seconds': model_value(m, res['n'])} if res and 'n' in res else {}


_old_c05 = obligations


def obligations(ctx, cfg):
    return _old_c05(ctx, cfg) + [ParseModifications(ctx, 2 if cfg['tier'] == 'quick' else 3), HandlerBaseInstant(ctx, False), HandlerBaseInstant(ctx, True)]
