"""C05 - ModifyAckDeadline replaces the deadline; zero means nack."""
import z3
from props.actor_steps import *
from framework import Obligation, Claim, Cover
from values import *
from interp import run_to_end
from models_sync import StatusV

NS = 1_000_000_000
OUTSIDE = []
ASSUMPTIONS = []


class C05a(Obligation):
    id = 'C05.a'
    tier = 'T1'
    desc = 'parse_deadline_extension_duration: <0 InvalidArgument, 0 None, 1..599 n s, >=600 600 s (all i32)'
    bounds = {'n': 'all i32'}

    def __init__(self, ctx):
        self.fn = ctx.free_fn('parse_deadline_extension_duration')

    def body(self, ip, p):
        n = p.fresh('n')
        p.assume(z3.And(n >= -(1 << 31), n < (1 << 31)))
        r = run_to_end(ip.call_fn(self.fn, [S(n, 'i32')]))
        return n, r

    def post(self, ip, p, res):
        n, r = res
        out = []
        if r.discr == 1:
            st = r.payload[1][0]
            out.append(Claim('err-iff-negative', n < 0))
            out.append(Claim('err-code', isinstance(st, StatusV) and st.code == 'invalid_argument'))
            out.append(Cover('negative reachable', n == -(1 << 31)))
        else:
            o = r.payload[0][0]
            out.append(Claim('ok-implies-nonneg', n >= 0))
            if o.discr == 0:
                out.append(Claim('none-iff-zero', n == 0))
                out.append(Cover('zero reachable'))
            else:
                d = o.payload[1][0]
                out.append(Claim('some-positive', n > 0))
                out.append(Claim('duration', d.t == z3.If(n >= 600, 600, n) * NS))
                out.append(Cover('599 reachable', n == 599))
                out.append(Cover('600 reachable', n == 600))
                out.append(Cover('i32::MAX reachable', n == (1 << 31) - 1))
        return out

    def model_info(self, p, m, res):
        from framework import model_value
        return {'n': model_value(m, res[0])} if res else {}


def obligations(ctx, cfg):
    q = cfg['tier'] == 'quick'
    n, k = (3, 2) if q else (4, 3)
    return [C05a(ctx), TrackerModify(ctx, n, k), StepModify(ctx, n, 2, k, 'modify', 'C05.d')]
