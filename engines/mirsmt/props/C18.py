"""C18 - resource names are parsed canonically (byte-level strings)."""
import z3
from framework import Obligation, Claim, Cover, model_value
from values import *
from interp import run_to_end
from models_str import Str, sym_str, concat_strs, display_to_str
from models_core import variant_of
from props.common import *

OUTSIDE = ['strings longer than the byte bound; code points above U+07FF (3- and 4-byte UTF-8 sequences)']
ASSUMPTIONS = ['str::find / get / starts_with / trim_matches follow their documented byte-level behaviour (model listed in models_used)']

KINDS = {
    'topic': ('TopicName', 'topic_id', b'/topics/'),
    'subscription': ('SubscriptionName', 'subscription_id', b'/subscriptions/'),
}


def str_model(m, s):
    n = model_value(m, s.len_t())
    lo = model_value(m, s.lo)
    out = []
    for j in range(n):
        out.append(model_value(m, s.byte_at(z3.IntVal(lo + j))))
    return bytes(out).decode('utf-8', 'replace')


class ParseShape(Obligation):
    def __init__(self, ctx, kind, cap):
        self.kind, self.cap = kind, cap
        self.ty, self.idf, self.seg = KINDS[kind]
        self.id = 'C18.a-' + kind
        self.desc = '%s::try_parse accepts s only if s = "projects/" P "%s" ID with P slash-free, P and ID non-empty' % (self.ty, self.seg.decode())
        self.bounds = {'max_bytes': cap, 'alphabet': 'any well-formed UTF-8 with code points <= U+07FF'}
        self.fn = ctx.fn(self.ty, 'try_parse')

    def body(self, ip, p):
        s = sym_str(p, 's', self.cap)
        r = run_to_end(ip.call_fn(self.fn, [Ref(Loc(Cell(s, 's')))]))
        return s, r

    def post(self, ip, p, res):
        s, r = res
        ctx = ip.ctx
        name = self.accepted(ip, r)
        if name is None:
            return [Cover('rejected path')]
        P = fld(ctx, name, self.ty, 'project_id').normalised()
        T = fld(ctx, name, self.ty, self.idf).normalised()
        lp, lt, ls = P.len_t(), T.len_t(), s.len_t()
        seg = self.seg
        out = [Claim('starts with projects/', s.starts_with(Str(list(b'projects/'), 0, 9)))]
        out.append(Claim('project id has no slash', z3.And([z3.Implies(lp > j, P.bt(j) != 47) for j in range(len(P.b))] or [True])))
        out.append(Claim('literal segment follows the project id',
                         z3.And([ls >= 9 + lp + len(seg)] + [s.byte_at(z3.simplify(9 + lp + j)) == seg[j] for j in range(len(seg))])))
        tail = Str(s.b, z3.simplify(s.lo + 9 + lp + len(seg)), s.hi)
        trimmed = tail.trim_matches_byte(lambda b: b == 47)
        out.append(Claim('project id is the text between projects/ and the segment',
                         z3.And([z3.Implies(lp > j, P.bt(j) == s.byte_at(z3.IntVal(9 + j))) for j in range(min(len(P.b), self.cap))])))
        out.append(Claim('resource id is the rest of the string (surrounding slashes may be trimmed, nothing else dropped or added)',
                         z3.And(ls >= 9 + lp + len(seg), z3.Or(T.eq(tail), T.eq(trimmed)))))
        out.append(Claim('project id non-empty', lp > 0))
        out.append(Claim('resource id non-empty', lt > 0))
        out.append(Cover('accepted with a 2-byte character in the id', z3.And(lt >= 2, T.bt(0) >= 0xC2)))
        out.append(Cover('accepted minimal name (1-char project, 1-char id)', z3.And(lp == 1, lt == 1)))
        return out

    def accepted(self, ip, r):
        return None if variant_of(ip, r) == 0 else r.payload[1][0]

    def model_info(self, p, m, res):
        if not res:
            return {}
        return {'input': str_model(m, res[0])}


class ApiParseShape(ParseShape):
    """the same shape claim at the entry every handler uses: api::parser::parse_topic_name / parse_subscription_name"""

    def __init__(self, ctx, kind, cap):
        ParseShape.__init__(self, ctx, kind, cap)
        fn_name = 'parse_topic_name' if kind == 'topic' else 'parse_subscription_name'
        self.id = 'C18.a-api-' + kind
        self.desc = 'api::parser::%s (what every handler calls) accepts s only if s = "projects/" P "%s" ID with P slash-free, P and ID non-empty' % (fn_name, self.seg.decode())
        self.fn = ctx.free_fn(fn_name)

    def accepted(self, ip, r):
        return r.payload[0][0] if variant_of(ip, r, (0, 1)) == 0 else None


class Echo(Obligation):
    def __init__(self, ctx, kind, cap):
        self.kind, self.cap = kind, cap
        self.ty, self.idf, self.seg = KINDS[kind]
        self.id = 'C18.b-' + kind
        self.desc = '%s: the canonical string echoed for an accepted name is itself accepted and denotes the same resource' % self.ty
        self.bounds = {'max_bytes': cap}
        self.fn = ctx.fn(self.ty, 'try_parse')

    def body(self, ip, p):
        s = sym_str(p, 's', self.cap)
        r = run_to_end(ip.call_fn(self.fn, [Ref(Loc(Cell(s, 's')))]))
        if variant_of(ip, r) == 0:
            return s, None, None, None
        name = r.payload[1][0]
        echo = run_to_end(display_to_str(ip, name))
        r2 = run_to_end(ip.call_fn(self.fn, [Ref(Loc(Cell(echo, 'echo')))]))
        return s, name, echo, r2

    def post(self, ip, p, res):
        s, name, echo, r2 = res
        ctx = ip.ctx
        if name is None:
            return []
        out = [Claim('echo accepted', r2.discr == 1 if isinstance(r2.discr, int) else r2.discr == 1)]
        if (isinstance(r2.discr, int) and r2.discr == 1) or not isinstance(r2.discr, int):
            n2 = r2.payload[1][0]
            out.append(Claim('echo denotes the same resource',
                             z3.And(fld(ctx, name, self.ty, 'project_id').normalised().eq(fld(ctx, n2, self.ty, 'project_id')),
                                    fld(ctx, name, self.ty, self.idf).normalised().eq(fld(ctx, n2, self.ty, self.idf)))))
            out.append(Cover('echo round trip'))
        return out

    def model_info(self, p, m, res):
        if not res:
            return {}
        d = {'input': str_model(m, res[0])}
        if res[2] is not None:
            d['echo'] = str_model(m, res[2])
        return d


class Distinct(Obligation):
    def __init__(self, ctx, kind, cap):
        self.kind, self.cap = kind, cap
        self.ty, self.idf, self.seg = KINDS[kind]
        self.id = 'C18.c-' + kind
        self.desc = '%s: names that differ in project or id have different canonical strings and compare unequal' % self.ty
        self.bounds = {'max_bytes_per_component': cap}

    def body(self, ip, p):
        ctx = ip.ctx
        comps = []
        for nm in ('p1', 't1', 'p2', 't2'):
            comps.append(sym_str(p, nm, self.cap, min_len=1))
        for P in (comps[0], comps[2]):
            for j in range(self.cap):
                p.assume(z3.Implies(P.len_t() > j, P.bt(j) != 47))     # accepted names have slash-free projects (C18.a)
        n1 = mk(ctx, self.ty, **{'project_id': comps[0], self.idf: comps[1]})
        n2 = mk(ctx, self.ty, **{'project_id': comps[2], self.idf: comps[3]})
        e1 = run_to_end(display_to_str(ip, n1))
        e2 = run_to_end(display_to_str(ip, n2))
        eqfn = ctx.fn(self.ty, 'eq', trait='PartialEq')
        same = run_to_end(ip.call_fn(eqfn, [Ref(Loc(Cell(n1))), Ref(Loc(Cell(n2)))]))
        return comps, e1, e2, same

    def post(self, ip, p, res):
        comps, e1, e2, same = res
        differ = z3.Or(z3.Not(comps[0].eq(comps[2])), z3.Not(comps[1].eq(comps[3])))
        return [Claim('different names => different canonical strings', z3.Implies(differ, z3.Not(e1.eq(e2)))),
                Claim('same components => same canonical string', z3.Implies(z3.Not(differ), e1.eq(e2))),
                Claim('== agrees with component equality', same.t == z3.Not(differ)),
                Cover('differ only in id', z3.And(comps[0].eq(comps[2]), z3.Not(comps[1].eq(comps[3])))),
                Cover('equal', z3.Not(differ))]

    def model_info(self, p, m, res):
        return {'components': [str_model(m, c) for c in res[0]]} if res else {}


def obligations(ctx, cfg):
    q = cfg['tier'] == 'quick'
    cap = 22 if q else 32
    obs = []
    for kind in ('topic', 'subscription'):
        c = cap + (7 if kind == 'subscription' else 0)
        obs += [ParseShape(ctx, kind, c), Echo(ctx, kind, c), Distinct(ctx, kind, 4 if q else 6)]
    return obs


def native_replay(ob_id, v):
    s = v.get('info', {}).get('input')
    if s is None:
        return None
    kind = 'topic' if ob_id.endswith('topic') else 'subscription'
    if ob_id.startswith('C18.c'):
        return None
    if '-api-' in ob_id or ob_id.startswith('C17.f'):
        # the api parser is private to the crate: replayed through the gRPC surface (CreateTopic / GetSubscription with the raw name)
        return {'judge': 'api_names', 'kind': kind, 'scenario': 'api_parse_name:%s:%s' % (kind, s.encode('utf-8').hex())}
    return {'judge': 'names', 'kind': kind, 'ops': [{'op': 'parse_name', 'kind': kind, 'bytes': list(s.encode('utf-8'))}]}


class InProject(Obligation):
    """is_in_project(p) <=> the name's project id is exactly p; the accessors return the parsed components"""

    def __init__(self, ctx, kind):
        self.kind = kind
        self.ty = 'TopicName' if kind == 'topic' else 'SubscriptionName'
        self.id = 'C18.d-in-project-%s' % kind
        self.desc = '%s::is_in_project(p) holds exactly when p is the project id of the name' % self.ty
        self.bounds = {'project ids': 'opaque strings'}

    def body(self, ip, p):
        ctx = ip.ctx
        from models_str import StrTok
        from props.common import sym_name
        name = sym_name(ctx, p, self.ty, 'n')
        other = p.fresh('other_project')
        r = run_to_end(ip.call_fn(ctx.fn(self.ty, 'is_in_project'), [Ref(Loc(Cell(name))), Ref(Loc(Cell(StrTok(other))))]))
        idm = 'topic_id' if self.kind == 'topic' else 'subscription_id'
        acc = {}
        for m in ('project_id', idm):
            try:
                f = ctx.fn(self.ty, m)
            except KeyError:
                continue                      # the type has no such accessor
            v = run_to_end(ip.call_fn(f, [Ref(Loc(Cell(name)))]))
            while isinstance(v, Ref):
                v = read_loc(v.loc)
            acc[m] = v
        return name, other, r, acc

    def post(self, ip, p, res):
        name, other, r, acc = res
        order = ip.ctx.src.struct_fields(self.ty)
        proj = name.fields[order.index('project_id')].tok
        out = [Claim('is_in_project(p) == (project id == p)', r.t == (proj == other)), Cover('same project', proj == other), Cover('another project', proj != other)]
        for m, v in acc.items():
            out.append(Claim('%s() is the parsed %s' % (m, m.replace('_', ' ')), getattr(v, 'tok', None) is not None and v.tok == name.fields[order.index(m)].tok))
        return out


_obligations_c18 = obligations


def obligations(ctx, cfg):
    cap = 22 if cfg['tier'] == 'quick' else 32
    return _obligations_c18(ctx, cfg) + [InProject(ctx, 'topic'), InProject(ctx, 'subscription'), ApiParseShape(ctx, 'topic', cap), ApiParseShape(ctx, 'subscription', cap + 7)]
