"""Harness for the gRPC handler bodies (api/subscriber.rs, api/publisher.rs): a service value
with symbolic managers, request builders, name-parser abstraction, prefix observation."""
import z3
from framework import Obligation, Claim, Cover, model_value, run_async, find_values
from values import *
from interp import run_to_end
from models_coll import Seq, MapM
from models_core import ok, err, some, NONE
from models_async import OneshotTx, SenderM, Leaf
from models_sync import ArcTok, ArcCell, LockM, WeakV, StatusV
from models_str import StrTok
from props.common import *

MUT = ('enqueue', 'spawn', 'map-mutate', 'joinset.spawn', 'registry.set')


class StopExec(Exception):
    """raised by an observation hook to end the path at the observed call (Tier 2 prefix)"""

    def __init__(self, what, data):
        Exception.__init__(self, what)
        self.what = what
        self.data = data


def mutating(log):
    return [e for e in log if e[0] in MUT]


def proto(ctx, _ty, **fields):
    name = _ty
    """a prost message value; unnamed fields are opaque"""
    order = ctx.src.struct_fields(name, 'pubsub_proto_generated')
    if order is None:
        raise Unsupported('protocol struct %s not found' % name)
    for f in fields:
        if f not in order:
            raise Unsupported('protocol struct %s has no field %s' % (name, f))
    return Agg(name, [fields.get(f, Opaque('proto-field:' + f)) for f in order])


def request(msg):
    return Agg('Request', [msg])


def sym_managers(ctx, p, n_topics=1, n_subs=1):
    """(service value, dict of handles) with symbolic manager maps"""
    U = ctx.tok_ufs
    topics, subs = [], []
    for i in range(n_topics):
        u, t = p.fresh('t%d_used' % i, 'bool'), p.fresh('t%d_tok' % i)
        topics.append((u, t))
    for i in range(n_subs):
        u, t = p.fresh('s%d_used' % i, 'bool'), p.fresh('s%d_tok' % i)
        subs.append((u, t))
    tmap = MapM([(u, mk(ctx, 'TopicName', project_id=StrTok(U['topic_proj'](t)), topic_id=StrTok(U['topic_id'](t))), ArcTok(t, 'Topic'))
                 for u, t in topics])
    smap = MapM([(u, mk(ctx, 'SubscriptionName', project_id=StrTok(U['sub_proj'](t)), subscription_id=StrTok(U['sub_id'](t))),
                  ArcTok(t, 'Subscription')) for u, t in subs])
    for i in range(len(topics)):
        for j in range(i + 1, len(topics)):
            p.assume(z3.Implies(z3.And(topics[i][0], topics[j][0]),
                                z3.Or(U['topic_proj'](topics[i][1]) != U['topic_proj'](topics[j][1]),
                                      U['topic_id'](topics[i][1]) != U['topic_id'](topics[j][1]))))
    for i in range(len(subs)):
        for j in range(i + 1, len(subs)):
            p.assume(z3.Implies(z3.And(subs[i][0], subs[j][0]),
                                z3.Or(U['sub_proj'](subs[i][1]) != U['sub_proj'](subs[j][1]),
                                      U['sub_id'](subs[i][1]) != U['sub_id'](subs[j][1]))))
    tstate = Cell(mk_opt(ctx, 'State', 'topics/topic_manager', topics=tmap, next_id=S(p.fresh('t_next_id'), 'u32')), 'tstate')
    sstate = Cell(mk_opt(ctx, 'State', 'subscriptions/subscription_manager', subscriptions=smap, next_id=S(p.fresh('s_next_id'), 'u32')), 'sstate')
    for stv in (tstate.v, sstate.v):
        for f in stv.fields:
            if isinstance(f, S):
                p.assume(z3.And(f.t >= 1, f.t < (1 << 31)))
    tm = ArcCell(Cell(mk(ctx, 'TopicManager', state=ArcCell(Cell(LockM('topic_manager.state', tstate)))), 'tm'))
    sm = ArcCell(Cell(mk(ctx, 'SubscriptionManager', state=ArcCell(Cell(LockM('subscription_manager.state', sstate))),
                         push_registry=Opaque('push_registry')), 'sm'))
    svc = mk(ctx, 'SubscriberService', topic_manager=tm, subscription_manager=sm)
    pub = mk(ctx, 'PublisherService', topic_manager=tm)
    return {'subscriber': svc, 'publisher': pub, 'topics': topics, 'subs': subs, 'tstate': tstate, 'sstate': sstate}


def abstract_name_parsers(ip, p):
    """parse_topic_name / parse_subscription_name are decided on their own (C17.b, C18); in the
    handler obligations they answer nondeterministically: InvalidArgument, or an arbitrary name."""
    ctx = ip.ctx
    state = {'n': 0, 'results': []}

    def hook(kind):
        def h(ip_, callee, args):
            state['n'] += 1
            okv = p.fresh('%s_name_ok%d' % (kind, state['n']), 'bool')
            a, b = p.fresh('%s_proj%d' % (kind, state['n'])), p.fresh('%s_id%d' % (kind, state['n']))
            if kind == 'topic':
                nm = mk(ctx, 'TopicName', project_id=StrTok(a), topic_id=StrTok(b))
            else:
                nm = mk(ctx, 'SubscriptionName', project_id=StrTok(a), subscription_id=StrTok(b))
            state['results'].append((kind, okv, a, b))
            if p.branch(okv, 'name parses'):
                return (ok(nm),)
            return (err(StatusV('invalid_argument')),)
        return h
    ip.hooks[r'^parse_topic_name$'] = hook('topic')
    ip.hooks[r'^parse_subscription_name$'] = hook('subscription')
    return state


def observe(ip, pattern, stop=True):
    """record the arguments of calls matching `pattern`; optionally end the path there"""
    seen = []

    def h(ip_, callee, args):
        seen.append(args)
        if stop:
            raise StopExec(pattern, args)
        return None
    ip.hooks[pattern] = h
    return seen


def start_handler(ip, p, svc_kind, method, svc, req):
    """call `<Service as Trait>::method(&svc, Request)`; returns the boxed coroutine value"""
    ctx = ip.ctx
    ty = 'SubscriberService' if svc_kind == 'subscriber' else 'PublisherService'
    tr = 'Subscriber' if svc_kind == 'subscriber' else 'Publisher'
    fn = ctx.fn(ty, method, trait=tr)
    return run_to_end(ip.call_fn(fn, [Ref(Loc(Cell(svc, 'svc'))), req]))


def status_code(v):
    if isinstance(v, StatusV):
        return v.code
    return None
