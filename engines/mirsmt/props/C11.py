"""C11 - deletion keeps topics and subscriptions consistent with each other."""
import z3
from framework import Obligation, Claim, Cover, model_value, run_async, find_values
from values import *
from interp import run_to_end
from models_coll import Seq, MapM
from models_core import ok, err
from models_sync import ArcTok, ArcCell, LockM
from models_str import StrTok
from props.common import *
from props.actor_steps import actor_fields, tracker_parts, notified
from props.C16 import default_reply, mutating

OUTSIDE = ['when the Weak<Topic> actually dies (reference counting across tasks): the histories C11.g state "the last handle is gone" as a step',
           '"at every quiescent moment ListTopicSubscriptions equals the live set" as a whole (composition of C11.a, C11.c, C01.e under A1)']
ASSUMPTIONS = ['A1: one request at a time per actor']


def sym_topic_actor(ctx, p, n, deleted=None):
    U = ctx.tok_ufs
    ents = []
    for i in range(n):
        ents.append((p.fresh('ts%d_used' % i, 'bool'), p.fresh('ts%d_tok' % i)))
    for i in range(n):
        for j in range(i + 1, n):
            p.assume(z3.Implies(z3.And(ents[i][0], ents[j][0]),
                                z3.And(ents[i][1] != ents[j][1],
                                       z3.Or(U['sub_proj'](ents[i][1]) != U['sub_proj'](ents[j][1]), U['sub_id'](ents[i][1]) != U['sub_id'](ents[j][1])))))
    mp = MapM([(u, mk(ctx, 'SubscriptionName', project_id=StrTok(U['sub_proj'](t)), subscription_id=StrTok(U['sub_id'](t))), ArcTok(t, 'Subscription'))
               for u, t in ents])
    dele = p.fresh('topic_deleted', 'bool') if deleted is None else z3.BoolVal(deleted)
    own = sym_name(ctx, p, 'TopicName', 'own_topic')
    other_u = p.fresh('other_topic_used', 'bool')
    oname = sym_name(ctx, p, 'TopicName', 'other_topic')
    p.assume(z3.Not(eq_val(own, oname)))
    reg = p.fresh('topic_registered', 'bool')
    mstate = Cell(mk(ctx, 'State', 'topics/topic_manager',
                     topics=MapM([(reg, own, ArcTok(p.fresh('own_topic_tok'), 'Topic')), (other_u, oname, ArcTok(p.fresh('other_topic_tok'), 'Topic'))]),
                     next_id=S(p.fresh('t_next'), 'u32')), 'tmgr-state')
    delegate = mk(ctx, 'TopicManagerDelegate', state=ArcCell(Cell(LockM('topic_manager.state', mstate))))
    # `deleted` is tolerated as absent: C11.d decides the double-delete behaviour without naming the flag
    actor = mk_opt(ctx, 'TopicActor', '', info=mk(ctx, 'TopicInfo', name=own), messages=Seq([ArcTok(p.fresh('tm0'), 'TopicMessage')], 1),
               subscriptions=mp, delegate=delegate, topic_internal_id=S(p.fresh('tid'), 'u32'), next_message_id=S(p.fresh('nmid'), 'u32'),
               deleted=S(dele, 'bool'))
    tid_, nmid_ = fld(ctx, actor, 'TopicActor', 'topic_internal_id').t, fld(ctx, actor, 'TopicActor', 'next_message_id').t
    p.assume(z3.And(tid_ >= 0, tid_ < (1 << 32), nmid_ >= 0, nmid_ < (1 << 31)))
    if not has_field(ctx, 'TopicActor', 'deleted'):
        dele = z3.BoolVal(False)
    return Cell(actor, 'topic-actor'), ents, dele, mstate, own, oname, other_u, reg


def ta_fields(ctx, actor):
    g = lambda f: fld(ctx, actor, 'TopicActor', f)
    return {'subs': g('subscriptions'), 'messages': g('messages'), 'deleted': g('deleted').t if has_field(ctx, 'TopicActor', 'deleted') else None,
            'next': g('next_message_id').t}


class TopicHandlers(Obligation):
    id = 'C11.a'
    desc = 'TopicActor::{attach_subscription, remove_subscription, delete}: attach inserts iff vacant and calls nothing on the subscription; remove deletes exactly that name; delete clears subscriptions/messages, unregisters the topic, touches no subscription; second delete is a no-op'

    def __init__(self, ctx, n):
        self.n = n
        self.bounds = {'attached_subscriptions': n}
        install_tokens(ctx)

    def body(self, ip, p):
        ctx = ip.ctx
        U = ctx.tok_ufs
        which = p.choose(3, 'handler')
        cell, ents, dele, mstate, own, oname, other_u, reg = sym_topic_actor(ctx, p, self.n)
        res = {'which': which, 'cell': cell, 'ents': ents, 'dele': dele, 'mstate': mstate, 'own': own, 'oname': oname, 'other_u': other_u, 'reg': reg}
        if which == 0:
            t = p.fresh('new_sub_tok')
            res['new'] = t
            r = run_to_end(ip.call_fn(ctx.fn('TopicActor', 'attach_subscription'), [Ref(Loc(cell), True), ArcTok(t, 'Subscription')]))
        elif which == 1:
            nm = sym_name(ctx, p, 'SubscriptionName', 'rm')
            res['rm'] = nm
            r = run_to_end(ip.call_fn(ctx.fn('TopicActor', 'remove_subscription'), [Ref(Loc(cell), True), nm]))
        else:
            r = run_to_end(ip.call_fn(ctx.fn('TopicActor', 'delete', hint='topic_actor'), [Ref(Loc(cell), True)]))
        res['ret'] = r
        res['log'] = list(p.log)
        return res

    def post(self, ip, p, res):
        ctx = ip.ctx
        U = ctx.tok_ufs
        f = ta_fields(ctx, res['cell'].v)
        subs2 = f['subs']
        ents = res['ents']
        out = [Claim('returns Ok', res['ret'].discr == 0),
               Claim('no request is sent to any subscription or topic', not any(e[0] in ('enqueue', 'spawn', 'joinset.spawn') for e in res['log']))]
        name_of = lambda t: mk(ctx, 'SubscriptionName', project_id=StrTok(U['sub_proj'](t)), subscription_id=StrTok(U['sub_id'](t)))
        if res['which'] == 0:
            t = res['new']
            had = z3.Or([z3.And(u, eq_val(name_of(x), name_of(t))) for u, x in ents] or [False])
            out.append(Claim('attached under its own name', subs2.found(name_of(t))))
            out.append(Claim('inserted iff vacant (an existing entry of that name is kept)',
                             z3.And(z3.Implies(z3.Not(had), subs2.lookup(name_of(t)).tok == t),
                                    z3.And([z3.Implies(z3.And(u, eq_val(name_of(x), name_of(t))), subs2.lookup(name_of(t)).tok == x) for u, x in ents] or [True]))))
            out.append(Claim('others untouched', z3.And([z3.Implies(u, z3.And(subs2.found(name_of(x)), subs2.lookup(name_of(x)).tok == x)) for u, x in ents] or [True])))
            out.append(Claim('count', subs2.count() == z3.Sum([z3.If(u, 1, 0) for u, _ in ents] or [z3.IntVal(0)]) + z3.If(had, 0, 1)))
            if f['deleted'] is not None:
                out.append(Claim('messages / deleted / counter unchanged', z3.And(f['deleted'] == res['dele'])))
            out.append(Cover('attach into non-empty topic', z3.And(z3.Not(had), ents[0][0]) if ents else True))
        elif res['which'] == 1:
            nm = res['rm']
            out.append(Claim('named subscription absent afterwards', z3.Not(subs2.found(nm))))
            out.append(Claim('others untouched',
                             z3.And([z3.Implies(z3.And(u, z3.Not(eq_val(name_of(x), nm))), z3.And(subs2.found(name_of(x)), subs2.lookup(name_of(x)).tok == x))
                                     for u, x in ents] or [True])))
            out.append(Claim('count', subs2.count() == z3.Sum([z3.If(z3.And(u, z3.Not(eq_val(name_of(x), nm))), 1, 0) for u, x in ents] or [z3.IntVal(0)])))
            out.append(Cover('removes an attached one', z3.Or([z3.And(u, eq_val(name_of(x), nm)) for u, x in ents] or [False])))
            out.append(Cover('unknown name', z3.Not(z3.Or([z3.And(u, eq_val(name_of(x), nm)) for u, x in ents] or [False]))))
        else:
            was = res['dele']
            tm = fld(ctx, res['mstate'].v, 'State', 'topics', 'topics/topic_manager')
            if f['deleted'] is not None:
                out.append(Claim('deleted flag set', f['deleted']))
            out.append(Claim('first delete: subscriptions and messages cleared, topic unregistered; other topics untouched',
                             z3.Implies(z3.Not(was), z3.And(subs2.count() == 0, f['messages'].n == 0, z3.Not(tm.found(res['own'])),
                                                           tm.found(res['oname']) == res['other_u']))))
            out.append(Claim('second delete is a no-op',
                             z3.Implies(was, z3.And(subs2.count() == z3.Sum([z3.If(u, 1, 0) for u, _ in ents] or [z3.IntVal(0)]),
                                                    tm.found(res['own']) == res['reg']))))
            out.append(Cover('first delete with attached subscriptions', z3.And(z3.Not(was), ents[0][0]) if ents else z3.Not(was)))
            out.append(Cover('second delete', was))
        return out


class TopicDeleteTwice(Obligation):
    id = 'C11.d-delete-recreate-delete'
    desc = ('TopicActor::delete, then a topic of the same name is created again, then a second Delete reaches the old actor (a handle resolved before the '
            'first delete): the re-created topic stays registered; subscriptions of the old topic are not re-attached')

    def __init__(self, ctx, n):
        self.n = n
        self.bounds = {'attached_subscriptions': n}
        install_tokens(ctx)

    def body(self, ip, p):
        ctx = ip.ctx
        cell, ents, dele, mstate, own, oname, other_u, reg = sym_topic_actor(ctx, p, self.n, deleted=False)
        fn = ctx.fn('TopicActor', 'delete', hint='topic_actor')
        r1 = run_to_end(ip.call_fn(fn, [Ref(Loc(cell), True)]))
        # the name is taken again by a new topic (TopicManager::create_topic, decided in C10.a)
        newtok = p.fresh('recreated_topic_tok')
        st = mstate.v
        tm = fld(ctx, st, 'State', 'topics', 'topics/topic_manager')
        absent_after_first = z3.Not(tm.found(own))
        order = ctx.src.struct_fields('State', 'topics/topic_manager')
        fs = list(st.fields)
        fs[order.index('topics')] = MapM([(z3.BoolVal(True), own, ArcTok(newtok, 'Topic')), (other_u, oname, ArcTok(p.fresh('other_topic_tok2'), 'Topic'))])
        mstate.v = Agg(st.name, fs)
        r2 = run_to_end(ip.call_fn(fn, [Ref(Loc(cell), True)]))
        return {'cell': cell, 'mstate': mstate, 'own': own, 'oname': oname, 'other_u': other_u, 'newtok': newtok, 'r1': r1, 'r2': r2,
                'absent_after_first': absent_after_first, 'log': list(p.log)}

    def post(self, ip, p, res):
        ctx = ip.ctx
        tm = fld(ctx, res['mstate'].v, 'State', 'topics', 'topics/topic_manager')
        f = ta_fields(ctx, res['cell'].v)
        return [Claim('both deletes return Ok', res['r1'].discr == 0 and res['r2'].discr == 0),
                Claim('the first delete unregisters the topic', res['absent_after_first']),
                Claim('the re-created topic is still registered under the name after the stale second delete',
                      z3.And(tm.found(res['own']), tm.lookup(res['own']).tok == res['newtok'])),
                Claim('other topics untouched', tm.found(res['oname']) == res['other_u']),
                Claim('the old actor holds no subscriptions (nothing re-attached)', f['subs'].count() == 0),
                Claim('no request is sent to any subscription', not any(e[0] in ('enqueue', 'spawn', 'joinset.spawn') for e in res['log'])),
                Cover('reached')]


class SubDelete(Obligation):
    id = 'C11.c'
    tier = 'T3'
    desc = 'SubscriptionActor::delete: deleted:=true; removed from the topic (if alive) before; then unregistered from the manager, consumers notified, tracker/backlog cleared, push unregistered - with the topic alive or dead; second delete is a no-op'

    def __init__(self, ctx):
        self.bounds = {'outstanding_slots': 2, 'backlog_slots': 2, 'pending_answers': 1}
        install_tokens(ctx)

    def body(self, ip, p):
        ctx = ip.ctx
        ctx.on_enqueue = default_reply
        st = sym_actor(ctx, p, 2, 2)
        fn = ctx.fn('SubscriptionActor', 'delete')
        coro = run_to_end(ip.call_fn(fn, [Ref(Loc(st.cell), True)]))
        res, k = run_async(ip, p, coro, budget=1)
        return {'st': st, 'ret': res, 'log': list(p.log), 'k': k}

    def post(self, ip, p, res):
        ctx = ip.ctx
        st = res['st']
        f = actor_fields(ctx, st.cell.v)
        m2, s2 = tracker_parts(ctx, f['outstanding'])
        log = res['log']
        mgr = fld(ctx, st.mstate.v, 'State', 'subscriptions', 'subscriptions/subscription_manager')
        push = fld_single(ctx, st.pstate.v, 'PushSubscriptionsRegistryState')
        enq = [e for e in log if e[0] == 'enqueue']
        out = [Claim('returns Ok (topic mailbox open)', res['ret'].discr == 0),
               Claim('deleted afterwards', f['deleted']),
               Claim('I6: backlog and outstanding empty afterwards', z3.And(f['backlog'].n == 0, m2.count() == 0, s2.count() == 0)),
               Claim('no longer registered in the manager (topic alive or dead)', z3.Not(mgr.found(st.name))),
               Claim('other subscriptions stay registered', mgr.found(st.oname) == st.other_u),
               Claim('push registration removed', z3.Not(push.found(st.name))),
               Claim('next_ack_id unchanged', f['next'] == st.next)]
        # first delete: effects and their order
        first = z3.Not(st.deleted)
        kinds = [e[0] for e in log if e[0] in ('enqueue', 'map-mutate', 'oneshot.send', 'notify_waiters')]
        if enq:
            req = enq[0][3]
            ev = ip.src.enum_variants('TopicRequest')
            out.append(Claim('the only request goes to the own topic and is RemoveSubscription(own name)',
                             len(enq) == 1 and enq[0][1] == 'topic' and ev[req.discr][0] == 'RemoveSubscription'))
            out.append(Claim('request addressed to the topic the subscription is attached to', enq[0][2] == st.topic_tok))
            out.append(Claim('it names this subscription', eq_val(req.payload[req.discr][0], st.name)))
            out.append(Claim('topic asked only when alive and on the first delete', z3.And(st.topic_alive, first)))
            out.append(Claim('topic removal completes before the manager entry goes', kinds.index('enqueue') < kinds.index('map-mutate') if 'map-mutate' in kinds else False))
            out.append(Cover('topic alive'))
        else:
            out.append(Claim('topic skipped only when dead or already deleted', z3.Or(z3.Not(st.topic_alive), st.deleted)))
            out.append(Cover('topic dead, first delete', z3.And(first, z3.Not(st.topic_alive))))
            out.append(Cover('second delete', st.deleted))
        signalled = any(e[0] == 'oneshot.send' and e[1] == st.deleted_cid for e in log)
        woke = any(e[0] == 'notify_waiters' and e[1] == 'messages_available' for e in log)
        out.append(Claim('first delete fires the deletion signal and wakes all waiting consumers', z3.Implies(first, z3.BoolVal(signalled and woke))))
        return out


def obligations(ctx, cfg):
    n = 2 if cfg['tier'] == 'quick' else 4
    return [TopicHandlers(ctx, n), SubDelete(ctx), TopicDeleteTwice(ctx, n)]


# ---------------------------------------------------------------------- history from the real constructor (no field of the actor is named)
class TopicActorHistory(Obligation):
    """TopicActor::start run for real; the spawned actor task is fed a fixed sequence of requests through its mailbox and the
    answers are compared with the obvious reference - independent of how the actor represents its state"""
    id = 'C11.e-history-topic-actor'
    tier = 'T3'
    desc = ('the topic actor as started by TopicActor::start, fed Attach(a), Attach(b), List, Remove(a|b), Attach(c), List, Delete, List through its mailbox: '
            'each listing is exactly the set of attached subscriptions in creation order; after Delete nothing is listed')
    bounds = {'history': 'the 8 requests above; which of a / b is removed is a choice', 'subscriptions': 3}
    unroll = 10

    def __init__(self, ctx):
        install_tokens(ctx)

    def body(self, ip, p):
        ctx = ip.ctx
        from models_async import ReceiverM, OneshotTx, poll_future
        from props.C16 import default_reply
        ctx.on_enqueue = default_reply
        U = ctx.tok_ufs
        own = sym_name(ctx, p, 'TopicName', 'own_topic')
        mstate = Cell(mk_opt(ctx, 'State', 'topics/topic_manager', topics=MapM([(z3.BoolVal(True), own, ArcTok(p.fresh('own_topic_tok'), 'Topic'))]),
                             next_id=S(p.fresh('t_next'), 'u32')), 'tmgr-state')
        delegate = mk(ctx, 'TopicManagerDelegate', state=ArcCell(Cell(LockM('topic_manager.state', mstate))))
        info = mk(ctx, 'TopicInfo', name=own)
        n0 = len(p.log)
        run_to_end(ip.call_fn(ctx.fn('TopicActor', 'start'), [delegate, info, S(p.fresh('tid'), 'u32')]))
        spawned = [e for e in p.log[n0:] if e[0] == 'spawn']
        if len(spawned) != 1:
            raise Unsupported('TopicActor::start spawned %d tasks' % len(spawned))
        task = spawned[0][1]
        # three subscriptions with distinct names, created in the order a, b, c
        toks = [p.fresh('sub_%s_tok' % x) for x in 'abc']
        for i in range(3):
            for j in range(i + 1, 3):
                p.assume(z3.And(toks[i] != toks[j], z3.Or(U['sub_proj'](toks[i]) != U['sub_proj'](toks[j]), U['sub_id'](toks[i]) != U['sub_id'](toks[j])),
                                U['sub_iid'](toks[i]) < U['sub_iid'](toks[j])))
        name_of = lambda t: mk(ctx, 'SubscriptionName', project_id=StrTok(U['sub_proj'](t)), subscription_id=StrTok(U['sub_id'](t)))
        ev = ctx.src.enum_variants('TopicRequest')
        idx = {n: i for i, (n, _) in enumerate(ev)}
        txs = []

        def tx():
            p.counter += 1
            t = OneshotTx(p.counter)
            txs.append(t)
            return t
        big = mk(ctx, 'Paging', size=S(z3.IntVal(1000), 'usize'), offset=Enum('Option', 0, {}))
        rm = p.choose(2, 'which subscription is removed')
        fields_of = lambda v: ev[idx[v]][1]

        def req(variant, **kw):
            names = fields_of(variant)
            return Enum('TopicRequest', idx[variant], {idx[variant]: tuple(kw[n] for n in names)})
        items = [req('AttachSubscription', subscription=ArcTok(toks[0], 'Subscription'), responder=tx()),
                 req('AttachSubscription', subscription=ArcTok(toks[1], 'Subscription'), responder=tx()),
                 req('ListSubscriptions', paging=big, responder=tx()),
                 req('RemoveSubscription', name=name_of(toks[rm]), responder=tx()),
                 req('AttachSubscription', subscription=ArcTok(toks[2], 'Subscription'), responder=tx()),
                 req('ListSubscriptions', paging=big, responder=tx()),
                 req('Delete', responder=tx()),
                 req('ListSubscriptions', paging=big, responder=tx())]
        # hand the actor task its mailbox with the history in it
        ups = list(task.upvars) if hasattr(task, 'upvars') else None
        if ups is None:
            raise Unsupported('spawned task is not a coroutine value')
        k = [i for i, u in enumerate(ups) if isinstance(u, Opaque) and u.tag == 'mpsc.Receiver']
        if len(k) != 1:
            raise Unsupported('the actor task does not own exactly one mailbox')
        rx = ReceiverM(items)
        ups[k[0]] = rx
        cell = Cell(Enum(task.name, task.discr, task.payload, ups), 'actor-task')
        r = run_to_end(poll_future(ip, Loc(cell)))
        return {'parked': r.discr == 1, 'left': len(rx.items), 'txs': txs, 'toks': toks, 'rm': rm, 'sent': dict(getattr(p, 'sent', {}))}

    def post(self, ip, p, res):
        ctx = ip.ctx
        out = [Claim('the actor handled the whole history and waits for more', res['parked'] and res['left'] == 0)]
        sent = res['sent']
        out.append(Claim('every request was answered', all(t.cid in sent for t in res['txs'])))
        if not all(t.cid in sent for t in res['txs']):
            return out
        toks, rm = res['toks'], res['rm']

        def listed(cid):
            r = sent[cid]
            if r.discr != 0:
                return None
            page = r.payload[0][0]
            return fld(ctx, page, 'SubscriptionsPage', 'subscriptions')
        expect = {2: [toks[0], toks[1]], 5: [toks[1 - rm], toks[2]], 7: []}
        for pos, want in expect.items():
            seq = listed(res['txs'][pos].cid)
            out.append(Claim('listing %d succeeds' % pos, seq is not None))
            if seq is None:
                continue
            conj = [seq.n == len(want)]
            for i, t in enumerate(want):
                if i < len(seq.elems):
                    conj.append(z3.Implies(seq.n > i, seq.elems[i].tok == t))
                else:
                    conj.append(z3.BoolVal(False))
            out.append(Claim('request %d lists exactly %s, in creation order' % (pos, ['abc'[toks.index(t)] for t in want]), z3.And(conj)))
        out.append(Cover('a removed'), ) if rm == 0 else out.append(Cover('b removed'))
        return out


_obligations_c11 = obligations


def obligations(ctx, cfg):
    return _obligations_c11(ctx, cfg) + [TopicActorHistory(ctx)]


class SubscriberHistory(Obligation):
    id = 'C11.f-history-subscriber-service'
    tier = 'T3'
    desc = ('SubscriberService::new(..) on real managers, then CreateSubscription S on T, Acknowledge S, the subscription is deleted (its actor unregisters it), '
            'CreateSubscription S again, Acknowledge S: the second acknowledge is handed to the subscription registered under S now - not to the deleted one; '
            'each create attaches the new subscription to T')
    bounds = {'history': 'the 5 steps above'}
    unroll = 8

    def __init__(self, ctx):
        install_tokens(ctx)

    def body(self, ip, p):
        ctx = ip.ctx
        from framework import run_async
        from props.service import proto, request, start_handler
        from props.C10 import typed_reply
        from models_core import ok
        ctx.on_enqueue = typed_reply
        tmgr = run_to_end(ip.call_fn(ctx.fn('TopicManager', 'new'), []))
        tm_arc = ArcCell(Cell(tmgr, 'topic-manager'))
        pstate = Cell(mk_single(ctx, 'PushSubscriptionsRegistryState', MapM([])), 'pstate')
        reg = mk(ctx, 'PushSubscriptionsRegistry', state=ArcCell(Cell(LockM('push_registry.state', pstate))))
        smgr = run_to_end(ip.call_fn(ctx.fn('SubscriptionManager', 'new'), [reg]))
        sm_arc = ArcCell(Cell(smgr, 'subscription-manager'))
        svc = run_to_end(ip.call_fn(ctx.fn('SubscriberService', 'new'), [tm_arc, sm_arc]))
        proj = p.fresh('project')
        tname = mk(ctx, 'TopicName', project_id=StrTok(proj), topic_id=StrTok(p.fresh('topic_id')))
        sname = mk(ctx, 'SubscriptionName', project_id=StrTok(proj), subscription_id=StrTok(p.fresh('sub_id')))
        ip.hooks[r'^parse_topic_name$'] = lambda ip_, callee, args: (ok(tname),)
        ip.hooks[r'^parse_subscription_name$'] = lambda ip_, callee, args: (ok(sname),)
        ct = run_to_end(ip.call_fn(ctx.fn('TopicManager', 'create_topic'), [Ref(tm_arc.deref_loc(ip)), tname]))
        nfield, tfield = StrTok(p.fresh('name_field')), StrTok(p.fresh('topic_field'))

        def call(method, req):
            n0 = len(p.log)
            fut = start_handler(ip, p, 'subscriber', method, svc, request(req))
            res, _ = run_async(ip, p, fut, budget=0)
            return res, [e for e in p.log[n0:] if e[0] == 'enqueue']

        def create():
            return call('create_subscription', proto(ctx, 'Subscription', name=nfield, topic=tfield, push_config=Enum('Option', 0, {}),
                                                      ack_deadline_seconds=S(z3.IntVal(10), 'i32')))

        def ack():
            idt = p.fresh('ack_id_text')
            from models_str import _tok_parse_ok
            p.assume(_tok_parse_ok(idt))
            return call('acknowledge', proto(ctx, 'AcknowledgeRequest', subscription=nfield, ack_ids=Seq([StrTok(idt)], 1)))

        def registered_sender():
            r = run_to_end(ip.call_fn(ctx.fn('SubscriptionManager', 'get_subscription'), [Ref(sm_arc.deref_loc(ip)), Ref(Loc(Cell(sname)))]))
            if r.discr != 0:
                return None
            s_ = read_loc(r.payload[0][0].deref_loc(ip))
            return fld(ctx, s_, 'Subscription', 'sender', 'subscriptions/subscription')
        c1, e_c1 = create()
        s1 = registered_sender()
        a1, e_a1 = ack()
        delegate = mk(ctx, 'SubscriptionManagerDelegate', state=fld(ctx, sm_arc.cell.v, 'SubscriptionManager', 'state'))
        run_to_end(ip.call_fn(ctx.fn('SubscriptionManagerDelegate', 'delete'), [Ref(Loc(Cell(delegate))), Ref(Loc(Cell(sname)))]))
        c2, e_c2 = create()
        s2 = registered_sender()
        a2, e_a2 = ack()
        return {'ct': ct, 'c1': c1, 'c2': c2, 'a1': a1, 'a2': a2, 'e_c1': e_c1, 'e_c2': e_c2, 'e_a1': e_a1, 'e_a2': e_a2, 's1': s1, 's2': s2}

    def post(self, ip, p, res):
        ctx = ip.ctx
        out = [Claim('the topic, both CreateSubscription calls and both Acknowledge calls succeed',
                     res['ct'].discr == 0 and all(res[k].discr == 0 for k in ('c1', 'c2', 'a1', 'a2')))]
        s1, s2 = res['s1'], res['s2']
        out.append(Claim('the re-created subscription is a new subscription (its own mailbox)', s1 is not None and s2 is not None and s1.tok != s2.tok))
        if s1 is None or s2 is None:
            return out
        ev = ip.src.enum_variants('SubscriptionRequest')
        for k, s_, what in (('e_a1', s1, 'first'), ('e_a2', s2, 'second')):
            acks = [e for e in res[k] if ev[e[3].discr][0] == 'AcknowledgeMessages'] if all(e[3].name == 'SubscriptionRequest' for e in res[k]) else []
            out.append(Claim('%s acknowledge: exactly one request, to the subscription registered under the name at that moment' % what,
                             z3.And(z3.BoolVal(len(acks) == 1), acks[0][2] == s_.tok) if acks else False))
        tev = ip.src.enum_variants('TopicRequest')
        for k, what in (('e_c1', 'first'), ('e_c2', 'second')):
            att = [e for e in res[k] if e[3].name == 'TopicRequest' and tev[e[3].discr][0] == 'AttachSubscription']
            out.append(Claim('%s create: the new subscription is handed to its topic exactly once' % what, len(att) == 1))
        out.append(Cover('reached'))
        return out


_obligations_c11b = obligations


def obligations(ctx, cfg):
    return _obligations_c11b(ctx, cfg) + [SubscriberHistory(ctx)]


class ReadbackHistory(Obligation):
    id = 'C11.g-history-topic-deleted-and-recreated'
    tier = 'T3'
    desc = ('real services: CreateSubscription S on T, T is deleted (unregistered, last handle gone), GetSubscription S, a new topic is created under the name of T, '
            'GetSubscription S again: both read-backs report the deleted-topic sentinel; the new topic gets no attach request for S')
    bounds = {'history': 'the 5 steps above'}
    unroll = 8

    def __init__(self, ctx):
        install_tokens(ctx)

    def body(self, ip, p):
        ctx = ip.ctx
        from framework import run_async
        from props.service import proto, request, start_handler
        from props.C10 import typed_reply
        from models_core import ok
        ctx.on_enqueue = typed_reply
        tmgr = run_to_end(ip.call_fn(ctx.fn('TopicManager', 'new'), []))
        tm_arc = ArcCell(Cell(tmgr, 'topic-manager'))
        pstate = Cell(mk_single(ctx, 'PushSubscriptionsRegistryState', MapM([])), 'pstate')
        reg = mk(ctx, 'PushSubscriptionsRegistry', state=ArcCell(Cell(LockM('push_registry.state', pstate))))
        smgr = run_to_end(ip.call_fn(ctx.fn('SubscriptionManager', 'new'), [reg]))
        sm_arc = ArcCell(Cell(smgr, 'subscription-manager'))
        svc = run_to_end(ip.call_fn(ctx.fn('SubscriberService', 'new'), [tm_arc, sm_arc]))
        proj = p.fresh('project')
        tname = mk(ctx, 'TopicName', project_id=StrTok(proj), topic_id=StrTok(p.fresh('topic_id')))
        sname = mk(ctx, 'SubscriptionName', project_id=StrTok(proj), subscription_id=StrTok(p.fresh('sub_id')))
        ip.hooks[r'^parse_topic_name$'] = lambda ip_, callee, args: (ok(tname),)
        ip.hooks[r'^parse_subscription_name$'] = lambda ip_, callee, args: (ok(sname),)
        t1 = run_to_end(ip.call_fn(ctx.fn('TopicManager', 'create_topic'), [Ref(tm_arc.deref_loc(ip)), tname]))
        nfield, tfield = StrTok(p.fresh('name_field')), StrTok(p.fresh('topic_field'))

        def call(method, req):
            n0 = len(p.log)
            fut = start_handler(ip, p, 'subscriber', method, svc, request(req))
            res, _ = run_async(ip, p, fut, budget=0)
            return res, [e for e in p.log[n0:] if e[0] == 'enqueue']
        c1, _ = call('create_subscription', proto(ctx, 'Subscription', name=nfield, topic=tfield, push_config=Enum('Option', 0, {}),
                                                   ack_deadline_seconds=S(z3.IntVal(10), 'i32')))
        # DeleteTopic: the topic actor unregisters the topic (C11.a) and, its last handle gone, the object is freed
        delegate = mk(ctx, 'TopicManagerDelegate', state=fld(ctx, tm_arc.cell.v, 'TopicManager', 'state'))
        run_to_end(ip.call_fn(ctx.fn('TopicManagerDelegate', 'delete'), [Ref(Loc(Cell(delegate))), Ref(Loc(Cell(tname)))]))
        if t1.discr == 0 and isinstance(t1.payload[0][0], ArcCell):
            t1.payload[0][0].cell.dropped = True
        g1, _ = call('get_subscription', proto(ctx, 'GetSubscriptionRequest', subscription=nfield))
        n_mid = len(p.log)
        t2 = run_to_end(ip.call_fn(ctx.fn('TopicManager', 'create_topic'), [Ref(tm_arc.deref_loc(ip)), tname]))
        g2, _ = call('get_subscription', proto(ctx, 'GetSubscriptionRequest', subscription=nfield))
        late = [e for e in p.log[n_mid:] if e[0] == 'enqueue' and e[3].name == 'TopicRequest']
        return {'t1': t1, 't2': t2, 'c1': c1, 'g1': g1, 'g2': g2, 'late_topic_requests': late}

    def post(self, ip, p, res):
        ctx = ip.ctx
        from models_str import Str
        out = [Claim('both topics, the subscription and both read-backs succeed', all(res[k].discr == 0 for k in ('t1', 't2', 'c1', 'g1', 'g2')))]
        if not all(res[k].discr == 0 for k in ('g1', 'g2')):
            return out
        order = ctx.src.struct_fields('Subscription', 'pubsub_proto_generated')
        for k, when in (('g1', 'after the topic was deleted'), ('g2', 'after a topic of the same name was created again')):
            resp = res[k].payload[0][0].fields[0]
            tn = resp.fields[order.index('topic')]
            out.append(Claim('%s the subscription reports the deleted-topic sentinel' % when, isinstance(tn, Str) and tn.concrete() == b'_deleted_topic_'))
        out.append(Claim('the new topic is not asked to attach the old subscription', len(res['late_topic_requests']) == 0))
        out.append(Cover('reached'))
        return out


_obligations_c11c = obligations


def obligations(ctx, cfg):
    return _obligations_c11c(ctx, cfg) + [ReadbackHistory(ctx)]


_obligations_c11d = obligations


def obligations(ctx, cfg):
    # what a delivery reports about its message (map_to_received_message)
    from props.C09 import ParseAndMap
    pm = ParseAndMap()
    pm.id = 'C11.h-delivery-reports-the-stored-message'
    return _obligations_c11d(ctx, cfg) + [pm]
