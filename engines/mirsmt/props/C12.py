"""C12 - deleting a subscription releases the consumers waiting on it (Tier 3: each consumer loop from the
state 'parked, waiting for messages', then the deletion is processed; all select! orders, actor still
answering or already gone)."""
import z3
from framework import Obligation, Claim, Cover, model_value, run_async, find_values
from values import *
from interp import Interp, run_to_end
from models_core import ok, err, some, NONE
from models_async import OneshotTx, Leaf, StreamingM, AsyncStreamM, MergeM, poll_future, poll_stream_next
from models_coll import Seq
from models_sync import ArcCell, ArcTok, StatusV
from models_str import StrTok
from props.common import *
from props.service import sym_managers, proto, request, start_handler, status_code

OUTSIDE = ['tonic/h2 delivery of the final status to the client',
           'more than two consumers per subscription; more than two actor events next to the deletion; consumers cancelled by their client mid-way',
           'interleavings finer than shared-operation granularity inside one actor step (the actor handles one request at a time: A1)']
ASSUMPTIONS = ['notify_waiters() of the deletion reaches exactly the Notified futures created before it; the deletion one-shot stays resolved',
               'after the deletion the actor either still answers (empty batch) or its mailbox is closed']


def deleted_reply(ip, sender, req):
    """after the deletion the actor, if still alive, answers every pull with an empty batch"""
    from framework import responder_of
    tx0 = responder_of(req)
    txs = [tx0] if tx0 is not None else []
    if txs:
        replies = getattr(ip.path, 'replies', {})
        replies[txs[0].cid] = ok(Seq.empty())
        ip.path.replies = replies


class StreamingDelete(Obligation):
    id = 'C12.a-streaming'
    tier = 'T3'
    desc = 'StreamingPull: pull-loop generator parked waiting for messages; the subscription is deleted: the response stream ends with NOT_FOUND for every select! order, whether the actor still answers or its mailbox is already closed'
    bounds = {'consumers': 1, 'polls_after_delete': 8}
    unroll = 8

    def body(self, ip, p):
        ctx = ip.ctx
        install_tokens(ctx)
        ctx.on_enqueue = deleted_reply
        h = sym_managers(ctx, p)
        p.assume(h['subs'][0][0])
        stok = h['subs'][0][1]
        U = ctx.tok_ufs
        regname = mk(ctx, 'SubscriptionName', project_id=StrTok(U['sub_proj'](stok)), subscription_id=StrTok(U['sub_id'](stok)))
        ip.hooks[r'^parse_subscription_name$'] = lambda ip_, callee, args: (ok(regname),)
        mom = p.fresh('max_outstanding_messages')
        p.assume(z3.And(mom >= 0, mom < 65536))
        first = proto(ctx, 'StreamingPullRequest', subscription=StrTok(p.fresh('name_field')), ack_ids=Seq.empty(), modify_deadline_seconds=Seq.empty(),
                      modify_deadline_ack_ids=Seq.empty(), max_outstanding_messages=S(mom, 'i64'), max_outstanding_bytes=S(p.fresh('mob'), 'i64'))
        p.phase = 'A'
        fut = start_handler(ip, p, 'subscriber', 'streaming_pull', h['subscriber'], request(StreamingM([first])))
        res, _ = run_async(ip, p, fut, budget=0)
        if res.discr != 0:
            return {'setup_failed': True}
        streams = find_values(res, MergeM)
        merged = streams[0]
        pull_stream = merged.b           # push_stream.merge(pull_stream)
        # phase A: the generator pulls (nothing there) and parks in select!{signal, deleted}
        r = run_to_end(poll_stream_next(ip, pull_stream))
        parked = r.discr == 1
        n_before = len(p.log)
        # the deletion is processed: deletion signal resolved, notify_waiters() called
        p.phase = 'B'
        p.allow_closed = True
        items = []
        state = 'parked'
        for _ in range(8):
            r = run_to_end(poll_stream_next(ip, pull_stream))
            if r.discr == 1:
                state = 'parked'
                break
            it = r.payload[0][0]
            if it.discr == 0:
                state = 'ended'
                break
            items.append(it.payload[1][0])
        else:
            state = 'running'
        return {'parked_before': parked, 'items': items, 'state': state, 'log': p.log[n_before:]}

    def post(self, ip, p, res):
        if res.get('setup_failed'):
            return [Claim('stream set up', False)]
        out = [Claim('before the deletion the generator is parked waiting for messages', res['parked_before'])]
        last = res['items'][-1] if res['items'] else None
        nf = last is not None and last.discr == 1 and status_code(last.payload[1][0]) == 'not_found'
        c = Claim('the stream terminates with NOT_FOUND', res['state'] == 'ended' and nf)
        out.append(c)
        closed = any(e[0] == 'send-closed' for e in res['log'])
        out.append(Cover('select picked the message signal first and the actor still answered', not closed and any(e[0] == 'enqueue' for e in res['log'])))
        out.append(Cover('select picked the deletion signal first', not any(e[0] in ('enqueue', 'send-closed') for e in res['log'])))
        out.append(Cover('the actor mailbox was already closed', closed))
        return out

    def model_info(self, p, m, res):
        if not res or res.get('setup_failed'):
            return {}
        return {'class': 'stream-not-terminated-with-not-found', 'state': res['state'], 'items': len(res['items']),
                'events': [e[0] for e in res['log'] if e[0] in ('select-start', 'enqueue', 'send-closed', 'yield', 'ready')]}


class UnaryDelete(Obligation):
    id = 'C12.b-unary'
    tier = 'T3'
    desc = 'unary Pull blocked waiting for messages; the subscription is deleted: the call returns with an error status without waiting for the 5-minute limit'
    bounds = {'consumers': 1, 'polls_after_delete': 8}
    unroll = 8

    def body(self, ip, p):
        ctx = ip.ctx
        install_tokens(ctx)
        ctx.on_enqueue = deleted_reply
        h = sym_managers(ctx, p)
        p.assume(h['subs'][0][0])
        stok = h['subs'][0][1]
        U = ctx.tok_ufs
        regname = mk(ctx, 'SubscriptionName', project_id=StrTok(U['sub_proj'](stok)), subscription_id=StrTok(U['sub_id'](stok)))
        ip.hooks[r'^parse_subscription_name$'] = lambda ip_, callee, args: (ok(regname),)
        mx = p.fresh('max_messages')
        p.assume(z3.And(mx >= 1, mx < (1 << 31)))
        req = proto(ctx, 'PullRequest', subscription=StrTok(p.fresh('name_field')), return_immediately=S(z3.BoolVal(False), 'bool'), max_messages=S(mx, 'i32'))
        p.phase = 'A'
        p.timers_never_fire = True
        fut = start_handler(ip, p, 'subscriber', 'pull', h['subscriber'], request(req))
        cell = Cell(fut, 'pull-future')
        r = run_to_end(poll_future(ip, Loc(cell)))
        parked = r.discr == 1
        n_before = len(p.log)
        p.phase = 'B'
        p.allow_closed = True
        state, result = 'running', None
        for _ in range(8):
            # woken by notify_waiters(); afterwards nothing else will ever wake it (timer excluded)
            r = run_to_end(poll_future(ip, Loc(cell)))
            if r.discr == 0:
                state, result = 'returned', r.payload[0][0]
                break
            if not any(e[0] == 'ready' for e in p.log[n_before:]) or True:
                state = 'parked'
                # a second poll would only happen on another wake-up; none is coming
                break
        return {'parked_before': parked, 'state': state, 'result': result, 'log': p.log[n_before:]}

    def post(self, ip, p, res):
        out = [Claim('before the deletion the call is parked waiting for messages', res['parked_before'])]
        r = res['result']
        iserr = r is not None and isinstance(r, Enum) and r.discr == 1 and status_code(r.payload[1][0]) is not None
        out.append(Claim('the blocked Pull returns with an error status once the deletion has been processed', res['state'] == 'returned' and iserr))
        out.append(Cover('the actor still answered the re-pull', any(e[0] == 'enqueue' for e in res['log'])))
        out.append(Cover('the actor mailbox was already closed', any(e[0] == 'send-closed' for e in res['log'])))
        return out

    def model_info(self, p, m, res):
        return {'class': 'blocked-pull-not-released', 'state': res['state'],
                'events': [e[0] for e in res['log'] if e[0] in ('select-start', 'enqueue', 'send-closed', 'ready')]} if res else {}


def obligations(ctx, cfg):
    # C12.c: the subscription side of the release - SubscriptionActor::delete fires the deletion one-shot and
    # wakes every waiting consumer, with its topic alive or already gone (same obligation as C11.c)
    from props.C11 import SubDelete
    sd = SubDelete(ctx)
    sd.id = 'C12.c-delete-signals'
    from props.races import ConsumerRace
    obs = [StreamingDelete(), UnaryDelete(), sd,
           ConsumerRace(ctx, 'C12.d-race-pull-delete', ['pull'], ['delete'], n_out=0, n_back=0),
           ConsumerRace(ctx, 'C12.d-race-stream-delete', ['stream'], ['delete'], n_out=0, n_back=0)]
    # C12.c relies on: while a handle to the topic exists, the topic actor answers RemoveSubscription (so SubscriptionActor::delete
    # gets past its first await and reaches notify_deleted).  That is a property of the topic actor's loop:
    # a DeleteSubscription that is in the actor's mailbox is carried out whether or not its caller is still there (else the
    # subscription is left marked deleted with its consumers never told)
    from props.actor_steps import ReceiveDropped
    obs.append(ReceiveDropped(ctx, 'Delete', id_='C12.f-delete-completes-without-its-caller'))
    from props.races import RequestTerminates
    rt = RequestTerminates(ctx, 'delete', lambda c, p_: [])
    rt.id = 'C12.g-delete-returns-and-ends-the-actor-task'
    obs.append(rt)
    from props.C07 import TopicActorLoop
    obs += [TopicActorLoop(ctx, v, 'C12.e-topic-actor-serves') for v in ('Delete', 'RemoveSubscription')]
    if cfg['tier'] == 'thorough':
        obs += [ConsumerRace(ctx, 'C12.d-race-pull-post-delete', ['pull'], ['post', 'delete'], n_out=0, n_back=0),
                ConsumerRace(ctx, 'C12.d-race-stream-post-delete', ['stream'], ['post', 'delete'], n_out=0, n_back=0),
                ConsumerRace(ctx, 'C12.d-race-pull-then-stream-delete', ['pull', 'stream'], ['delete'], n_out=0, n_back=0, first=(0,), select_in_order=True),
                ConsumerRace(ctx, 'C12.d-race-stream-then-pull-delete', ['pull', 'stream'], ['delete'], n_out=0, n_back=0, first=(1,), select_in_order=True),
                ConsumerRace(ctx, 'C12.d-race-stream-backlog-delete', ['stream'], ['delete'], n_out=1, n_back=1)]
    return obs


def native_replay(ob_id, v):
    if ob_id == 'C12.a-streaming':
        return {'judge': 'delete_releases', 'scenario': 'delete_releases_streaming_pull'}
    if ob_id == 'C12.b-unary':
        return {'judge': 'delete_releases', 'scenario': 'delete_releases_blocked_pull'}
    if ob_id.startswith('C12.d-race-pull'):
        return {'judge': 'delete_releases', 'scenario': 'delete_releases_blocked_pull'}
    if ob_id.startswith('C12.d-race-stream'):
        return {'judge': 'delete_releases', 'scenario': 'delete_releases_streaming_pull'}
    return None
