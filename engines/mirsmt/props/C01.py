"""C01 - fan-out without loss (conservation step per handler; fan-out T3 obligations added separately)."""
from props.actor_steps import *

OUTSIDE = ['schedules: mailbox FIFO, one request at a time, JoinSet semantics (A1-A3)',
           'linearisation of Publish against concurrent create/delete']
ASSUMPTIONS = ['A1-A3: tokio mpsc FIFO/no loss, one request at a time per actor, select! runs one branch per iteration']


def obligations(ctx, cfg):
    q = cfg['tier'] == 'quick'
    no, nb, k = (3, 3, 2) if q else (4, 4, 3)
    obs = [StepPost(ctx, 2, nb, k, 'conserve', 'C01.a/b-post'),
           StepPull(ctx, no, nb, 0, 'conserve', 'C01.a-pull'),
           StepAck(ctx, no, 2, k, 'conserve', 'C01.a-ack'),
           StepModify(ctx, no, 2, k, 'conserve', 'C01.a-modify'),
           StepExpire(ctx, no, 2, 0, 'conserve', 'C01.a-expire')]
    from props.actor_steps import ActorLoop
    obs.append(ActorLoop(ctx, 2, 1, 2, True, 'conserve', 'C01.f-actor-loop'))
    # the topic side of the fan-out: every attached subscription is posted the whole accepted batch
    from props.C08 import PublishStep
    ns, kb = (3, 2) if q else (4, 3)
    obs.append(PublishStep(ctx, ns, kb, id_='C01.c-publish-fanout'))
    from props.C10 import PublishHandler
    ph = PublishHandler(ctx)
    ph.id = 'C01.d-publish-handler'
    obs.append(ph)
    return obs
