"""C01 - fan-out without loss (conservation step per handler; fan-out T3 obligations added separately)."""
from props.actor_steps import *

OUTSIDE = ['schedules: mailbox FIFO, one request at a time, JoinSet semantics (A1-A3)',
           'linearisation of Publish against concurrent create/delete']
ASSUMPTIONS = ['A1-A3: tokio mpsc FIFO/no loss, one request at a time per actor, select! runs one branch per iteration']


def obligations(ctx, cfg):
    q = cfg['tier'] == 'quick'
    no, nb, k = (3, 3, 2) if q else (4, 4, 3)
    obs = [StepPost(ctx, 2, nb, k, 'conserve', 'C01.a/b-post'),
           StepPull(ctx, no, nb, 0, 'conserve', 'C01.a-pull'),
           StepAck(ctx, no, 2, k, 'conserve', 'C01.a-ack'),
           StepModify(ctx, no, 2, k, 'conserve', 'C01.a-modify'),
           StepExpire(ctx, no, 2, 0, 'conserve', 'C01.a-expire')]
    from props.actor_steps import ActorLoop
    obs.append(ActorLoop(ctx, 2, 1, 2, True, 'conserve', 'C01.f-actor-loop'))
    # the topic side of the fan-out: every attached subscription is posted the whole accepted batch
    from props.C08 import PublishStep
    ns, kb = (3, 2) if q else (4, 3)
    obs.append(PublishStep(ctx, ns, kb, id_='C01.c-publish-fanout'))
    from props.C10 import PublishHandler
    ph = PublishHandler(ctx)
    ph.id = 'C01.d-publish-handler'
    obs.append(ph)
    obs.append(SubscriptionActorHistory(ctx, 'C01.g-history-subscription-actor'))
    return obs


# ---------------------------------------------------------------------- history through the real PublisherService (no field of it is named)
from framework import Obligation, Claim, Cover, run_async
from values import *
from interp import run_to_end


class PublisherHistory(Obligation):
    id = 'C01.h-history-publisher-service'
    tier = 'T3'
    desc = ('PublisherService::new(TopicManager::new()) for real, then CreateTopic T, Publish T, the topic is deleted (its actor unregisters it), CreateTopic T again, '
            'Publish T: the second publish is handed to the topic that is registered under T now - not to the deleted one')
    bounds = {'history': 'the 5 steps above', 'messages_per_publish': 1}
    unroll = 8

    def body(self, ip, p):
        ctx = ip.ctx
        from props.service import proto, request, start_handler
        from props.C10 import typed_reply as default_reply
        from props.C09 import BytesTok, AttrMapTok
        from models_core import ok
        from models_str import StrTok
        from models_sync import ArcCell
        install_tokens(ctx)
        ctx.on_enqueue = default_reply
        mgr = run_to_end(ip.call_fn(ctx.fn('TopicManager', 'new'), []))
        mgr_arc = ArcCell(Cell(mgr, 'topic-manager'))
        svc = run_to_end(ip.call_fn(ctx.fn('PublisherService', 'new'), [mgr_arc]))
        name = sym_name(ctx, p, 'TopicName', 'T')
        ip.hooks[r'^parse_topic_name$'] = lambda ip_, callee, args: (ok(name),)
        field = StrTok(p.fresh('name_field'))

        def call(method, req):
            fut = start_handler(ip, p, 'publisher', method, svc, request(req))
            res, _ = run_async(ip, p, fut, budget=0)
            return res

        def publish():
            n0 = len(p.log)
            msg = proto(ctx, 'PubsubMessage', data=BytesTok(p.fresh('data')), attributes=AttrMapTok(p.fresh('attrs')))
            r = call('publish', proto(ctx, 'PublishRequest', topic=field, messages=Seq([msg], 1)))
            return r, [e for e in p.log[n0:] if e[0] == 'enqueue']

        def registered_sender():
            r = run_to_end(ip.call_fn(ctx.fn('TopicManager', 'get_topic'), [Ref(mgr_arc.deref_loc(ip)), Ref(Loc(Cell(name)))]))
            if r.discr != 0:
                return None
            t = read_loc(r.payload[0][0].deref_loc(ip))
            return fld(ctx, t, 'Topic', 'sender', 'topics/topic')
        c1 = call('create_topic', proto(ctx, 'Topic', name=field))
        s1 = registered_sender()
        p1, e1 = publish()
        # the topic actor, handling Delete, unregisters the topic (TopicActor::delete, decided in C11.a)
        delegate = mk(ctx, 'TopicManagerDelegate', state=fld(ctx, mgr_arc.cell.v, 'TopicManager', 'state'))
        run_to_end(ip.call_fn(ctx.fn('TopicManagerDelegate', 'delete'), [Ref(Loc(Cell(delegate))), Ref(Loc(Cell(name)))]))
        c2 = call('create_topic', proto(ctx, 'Topic', name=field))
        s2 = registered_sender()
        p2, e2 = publish()
        return {'c1': c1, 'c2': c2, 'p1': p1, 'p2': p2, 'e1': e1, 'e2': e2, 's1': s1, 's2': s2}

    def post(self, ip, p, res):
        out = [Claim('both CreateTopic calls and both Publish calls succeed', all(res[k].discr == 0 for k in ('c1', 'c2', 'p1', 'p2')))]
        s1, s2 = res['s1'], res['s2']
        out.append(Claim('the re-created topic is a new topic (its own mailbox)', s1 is not None and s2 is not None and z3.simplify(s1.tok != s2.tok) is not None and s1.tok != s2.tok))
        for k, s_ in (('e1', s1), ('e2', s2)):
            enq = res[k]
            out.append(Claim('%s publish: exactly one request, to the topic registered under the name at that moment' % ('first' if k == 'e1' else 'second'),
                             z3.And(z3.BoolVal(len(enq) == 1), enq[0][2] == s_.tok) if enq and s_ is not None else False))
        out.append(Cover('reached'))
        return out


_obligations_c01 = obligations


def obligations(ctx, cfg):
    # every subscription that exists is attached to its topic (else the fan-out never reaches it)
    from props.C16 import CreateSubscription
    cs = CreateSubscription(ctx, abandon=False)
    cs.id = 'C01.e-create-attaches'
    # push is a consumer like any other: an attempt that failed (status or transport) must leave the message deliverable (nack), only an
    # accepted one may remove it (ack) - C14.a's obligation under C01's id
    from props.C14 import Dispatch
    dp = Dispatch(ctx)
    dp.budget = 1 if cfg['tier'] == 'quick' else 3
    dp.id = 'C01.i-push-attempt-settles-the-delivery'
    return _obligations_c01(ctx, cfg) + [PublisherHistory(), cs, dp]
