"""C19 - flow-control waiters never miss free capacity (Tier 4 interleavings; Kani K5 on the real Notify)."""
import z3
from framework import Obligation, Claim, Cover, model_value
from values import *
from interp import Interp, run_to_end
from t4 import AtomicM, NotifyT4, Activity, run_activities, future_activity, call_activity
from props.common import *

OUTSIDE = ['memory orderings weaker than sequential consistency', 'more than two waiters; more than two concurrent mutator calls',
           'fidelity of the Notify contract beyond the scenarios Kani harness K5 validates on the real tokio Notify']
ASSUMPTIONS = ['tokio::sync::Notify behaves as its documentation states (contract state machine in engines/mirsmt/t4.py)',
               'sequential consistency at the granularity of atomic operations and Notify calls']
U64 = (1 << 64) - 1


def mk_flow(ctx, p):
    mb, mm = p.fresh('max_bytes'), p.fresh('max_messages')
    b0, m0 = p.fresh('bytes0'), p.fresh('messages0')
    for t in (mb, mm, b0, m0):
        p.assume(z3.And(t >= 0, t <= U64))
    bytes_a = AtomicM('bytes', Cell(S(b0, 'u64')))
    msgs_a = AtomicM('messages', Cell(S(m0, 'u64')))
    notify = NotifyT4('flow')
    fc = mk(ctx, 'FlowControl', max_outstanding_bytes=S(mb, 'u64'), max_outstanding_messages=S(mm, 'u64'),
            outstanding_bytes=bytes_a, outstanding_messages=msgs_a, notifier=notify)
    return Cell(fc, 'flow-control'), {'mb': mb, 'mm': mm, 'b0': b0, 'm0': m0, 'bytes': bytes_a, 'msgs': msgs_a, 'notify': notify}


def space(h):
    return z3.And(h['msgs'].cell.v.t < h['mm'], h['bytes'].cell.v.t < h['mb'])


def start_waiter(ctx, p, cell, name):
    ip = Interp(ctx, p)
    act = Activity(name, ip)
    ip.activity = act
    coro = run_to_end(ip.call_fn(ctx.fn('FlowControl', 'wait_for_available_space'), [Ref(Loc(cell))]))
    act.gen = future_activity(act, Loc(Cell(coro, name + '-future')))
    return act


def start_mutator(ctx, p, cell, name, which):
    ip = Interp(ctx, p)
    act = Activity(name, ip)
    ip.activity = act
    db, dm = p.fresh(name + '_dbytes'), p.fresh(name + '_dmsgs')
    p.assume(z3.And(db >= 0, db <= U64, dm >= 0, dm <= U64))
    act.gen = call_activity(act, ctx.fn('FlowControl', which), [Ref(Loc(cell)), S(db, 'u64'), S(dm, 'u64')])
    act.deltas = (db, dm)
    return act


def waiter_claims(p, h, w, others_done=True):
    out = []
    if w.state == 'done':
        loads = [e for e in p.log if e[0] == 'loaded' and e[1] == w.name]
        lm = [e for e in loads if e[2] == 'messages']
        lb = [e for e in loads if e[2] == 'bytes']
        out.append(Claim('%s resumed only after reading both counts below their limits' % w.name,
                         z3.And(lm[-1][3] < h['mm'], lb[-1][3] < h['mb']) if lm and lb else False))
        # ... in one check: the two readings are not separated by a wait (a reading taken before parking says nothing
        # about the moment of resumption)
        if lm and lb:
            im = max(i for i, e in enumerate(p.log) if e[0] == 'loaded' and e[1] == w.name and e[2] == 'messages')
            ib = max(i for i, e in enumerate(p.log) if e[0] == 'loaded' and e[1] == w.name and e[2] == 'bytes')
            lo, hi = min(im, ib), max(im, ib)
            waited = any(e[0] == 'op' and e[1] == w.name and str(e[2]).startswith('Notified::poll') for e in p.log[lo:hi])
            out.append(Claim('%s: the two readings it resumed on belong to one check (no wait between them)' % w.name, not waited))
    elif w.state == 'parked':
        out.append(Claim('%s is not left parked while both counts are below their limits (no wake-up is pending)' % w.name,
                         z3.Not(space(h))))
    else:
        out.append(Claim('%s neither parked nor done at the end of the schedule' % w.name, False))
    return out


class HasSpace(Obligation):
    id = 'C19.b'
    desc = 'has_available_space() == (messages < max_messages && bytes < max_bytes) for all u64'
    bounds = {'all four': 'all u64'}

    def body(self, ip, p):
        cell, h = mk_flow(ip.ctx, p)
        r = run_to_end(ip.call_fn(ip.ctx.fn('FlowControl', 'has_available_space'), [Ref(Loc(cell))]))
        return h, r

    def post(self, ip, p, res):
        h, r = res
        return [Claim('result', r.t == space(h)), Cover('true', r.t), Cover('false by bytes only', z3.And(z3.Not(r.t), h['m0'] < h['mm']))]


class Race(Obligation):
    tier = 'T4'

    def __init__(self, ctx, muts, atomic=()):
        self.muts = muts
        self.atomic = set(atomic)      # indices of mutator calls executed as one step (not interleaved internally)
        self.id = 'C19.d-' + '+'.join(muts) + ('-atomic%s' % ''.join(str(i) for i in sorted(atomic)) if atomic else '')
        self.desc = 'wait_for_available_space interleaved at every shared operation with %s (symbolic limits, counts, deltas): never left parked with capacity free; never resumes without having seen capacity' % ' and '.join(muts)
        self.bounds = {'activities': 1 + len(muts), 'waiter_polls': '<= 6', 'granularity': 'atomic op / Notify call',
                       'calls_executed_as_one_step': sorted(atomic)}
        self.max_paths = 400000

    def body(self, ip, p):
        ctx = ip.ctx
        cell, h = mk_flow(ctx, p)
        w = start_waiter(ctx, p, cell, 'waiter')
        acts = [w] + [start_mutator(ctx, p, cell, '%s%d' % (m, i), m) for i, m in enumerate(self.muts)]
        for i, a in enumerate(acts[1:]):
            if i in self.atomic:
                inner = a.gen

                def whole(inner=inner):
                    yield ('sched', 'whole call')
                    try:
                        while True:
                            next(inner)
                    except StopIteration as e:
                        return e.value
                a.gen = whole()
        from t4 import prime
        prime(acts)          # run each activity's local prefix up to its first shared operation
        steps = run_activities(p, acts)
        return {'h': h, 'acts': acts, 'steps': steps}

    def post(self, ip, p, res):
        h, acts = res['h'], res['acts']
        w = acts[0]
        out = [Claim('every mutator call ran to completion', all(a.state == 'done' for a in acts[1:]))]
        # the counters are the net of all increments and decrements, whatever order they were applied in (a dec may overtake its inc)
        nb, nm = h['b0'], h['m0']
        for a, kind in zip(acts[1:], self.muts):
            db, dm = a.deltas
            nb, nm = (nb + db, nm + dm) if kind == 'inc' else (nb - db, nm - dm)
        M64 = 1 << 64
        out.append(Claim('after all calls the outstanding counts are initial + increments - decrements (mod 2^64): the order of the calls does not matter',
                         z3.And(h['bytes'].cell.v.t == nb % M64, h['msgs'].cell.v.t == nm % M64)))
        out += waiter_claims(p, h, w)
        out.append(Cover('waiter parked at the end (capacity still exhausted)', w.state == 'parked'))
        out.append(Cover('waiter woken by a mutator and resumed', w.state == 'done' and w.polls >= 2))
        out.append(Cover('waiter returned on the fast path', w.state == 'done' and w.polls == 1))
        return out

    def model_info(self, p, m, res):
        if not res:
            return {}
        h = res['h']
        return {'class': 'lost-wakeup', 'max_bytes': model_value(m, h['mb']), 'max_messages': model_value(m, h['mm']),
                'bytes0': model_value(m, h['b0']), 'messages0': model_value(m, h['m0']),
                'deltas': [[model_value(m, d) for d in a.deltas] for a in res['acts'][1:]],
                'schedule': [(e[1], e[2]) for e in p.log if e[0] == 'op']}


class TwoWaiters(Obligation):
    id = 'C19.c'
    tier = 'T4'
    desc = 'two waiters parked on a saturated control, one dec that frees capacity: both are woken and both resume (the re-polls interleaved at every shared operation)'
    bounds = {'waiters': 2, 'mutators': 1}
    max_paths = 100000

    def body(self, ip, p):
        ctx = ip.ctx
        cell, h = mk_flow(ctx, p)
        p.assume(z3.Not(space(h)))
        w1, w2 = start_waiter(ctx, p, cell, 'waiter1'), start_waiter(ctx, p, cell, 'waiter2')
        d = start_mutator(ctx, p, cell, 'dec', 'dec')
        for a in (w1, w2, d):
            next(a.gen)
        run_activities(p, [w1])
        run_activities(p, [w2])
        parked = (w1.state, w2.state)
        run_activities(p, [d])
        run_activities(p, [w1, w2])
        return {'h': h, 'acts': [w1, w2, d], 'parked': parked}

    def post(self, ip, p, res):
        h = res['h']
        w1, w2, d = res['acts']
        out = [Claim('both waiters parked before the change', res['parked'] == ('parked', 'parked'))]
        out += waiter_claims(p, h, w1) + waiter_claims(p, h, w2)
        out.append(Claim('one change that frees capacity releases both', z3.Implies(space(h), z3.BoolVal(w1.state == 'done' and w2.state == 'done'))))
        out.append(Cover('both released', w1.state == 'done' and w2.state == 'done'))
        out.append(Cover('dec frees nothing: both stay parked', w1.state == 'parked' and w2.state == 'parked'))
        return out


class FromCreate(Obligation):
    """the control as its constructor makes it (no field named): the limits in force are the ones that were asked for"""
    id = 'C19.e-history-from-create'
    desc = ('flow_control::create(max_bytes, max_messages), inc(b, m), has_available_space(), dec(b2, m2), has_available_space(): '
            'space is reported exactly when bytes < max_bytes and messages < max_messages, for the limits given to create')
    bounds = {'limits': 'all u64', 'counts': '< 2^62 (no wrap)', 'history': 'create, inc, query, dec, query'}

    def body(self, ip, p):
        ctx = ip.ctx
        mb, mm, b, m, b2, m2 = [p.fresh(n) for n in ('max_bytes', 'max_messages', 'inc_bytes', 'inc_msgs', 'dec_bytes', 'dec_msgs')]
        p.assume(z3.And(mb >= 0, mb <= U64, mm >= 0, mm <= U64, b >= 0, b < (1 << 62), m >= 0, m < (1 << 62), b2 >= 0, b2 <= b, m2 >= 0, m2 <= m))
        fc = run_to_end(ip.call_fn(ctx.free_fn('flow_control::create'), [S(mb, 'u64'), S(mm, 'u64')]))
        cell = Cell(fc, 'flow-control')
        call = lambda name, *a: run_to_end(ip.call_fn(ctx.fn('FlowControl', name), [Ref(Loc(cell))] + list(a)))
        call('inc', S(b, 'u64'), S(m, 'u64'))
        r1 = call('has_available_space')
        call('dec', S(b2, 'u64'), S(m2, 'u64'))
        r2 = call('has_available_space')
        return {'mb': mb, 'mm': mm, 'b': b, 'm': m, 'b2': b2, 'm2': m2, 'r1': r1, 'r2': r2}

    def post(self, ip, p, res):
        g = res
        return [Claim('after inc: space iff both counts are below the limits given to create', g['r1'].t == z3.And(g['b'] < g['mb'], g['m'] < g['mm'])),
                Claim('after dec: space iff both counts are below the limits given to create', g['r2'].t == z3.And(g['b'] - g['b2'] < g['mb'], g['m'] - g['m2'] < g['mm'])),
                Cover('space only after the dec', z3.And(z3.Not(g['r1'].t), g['r2'].t)),
                Cover('message limit above the byte limit', g['mm'] > g['mb'])]

    def model_info(self, p, m, res):
        return {k: model_value(m, v) for k, v in res.items() if k not in ('r1', 'r2')} if res else {}


def obligations(ctx, cfg):
    obs = [HasSpace(), Race(ctx, ['dec']), Race(ctx, ['inc']), TwoWaiters(), FromCreate()]
    if cfg['tier'] == 'thorough':
        obs.append(Race(ctx, ['dec', 'inc'], atomic=(1,)))
        obs.append(Race(ctx, ['inc', 'dec'], atomic=(1,)))
        obs.append(Race(ctx, ['dec', 'dec'], atomic=(1,)))
    return obs


def kani_harnesses(cfg):
    q = cfg['tier'] == 'quick'
    hs = [{'id': 'K5-notify-contract', 'harness': 'k5_notified_created_before_notify_waiters_sees_it', 'quick': True, 'desc': 'real tokio Notify: a Notified created before notify_waiters() observes it without having been polled; notify_waiters stores no permit (the contract clause Tier 4 relies on)'}, {'id': 'K5-two-waiters', 'harness': 'k5_two_parked_waiters_released_by_one_dec', 'desc': 'real FlowControl + real tokio Notify + the compiled future polled by hand: two parked waiters are both woken by one dec and complete iff capacity was freed (limits 2/2, any deltas <= 2)'}, {'id': 'K4-has-space', 'harness': 'k4_has_available_space', 'quick': True, 'desc': 'has_available_space on the compiled code, all u64'}]
    return [h for h in hs if not q or h.get('quick')]
