"""C14 - push subscriptions deliver at least once until the endpoint accepts (per-attempt logic)."""
import z3
from framework import Obligation, Claim, Cover, model_value, run_async, find_values
from values import *
from interp import run_to_end
from models_coll import Seq, MapM
from models_core import ok, err, variant_of, deref_all
from models_sync import ArcTok, ArcCell, LockM, StatusV, HttpRequestM
from models_str import StrTok, Str, sym_str
from props.common import *
from props.service import proto
from props.C16 import default_reply
from props.actor_steps import StepModify, StepExpire, StepAck, StepPull

OUTSIDE = ['more than one iteration of push_loop::run at a time (C14.f decides one iteration from an arbitrary registry / manager state); pages of more than two deliveries in pull_and_dispatch_messages (C14.e)',
           'reqwest/hyper; what "no answer within the deadline" does to the still-pending HTTP future',
           'deletion while a round is suspended at more than one place at once (C14.g: one outstanding leaf future when the deletion arrives)']
ASSUMPTIONS = ['the HTTP exchange is a leaf future with an arbitrary outcome: any status 100..=999 or a transport error']


class Dispatch(Obligation):
    id = 'C14.a'
    tier = 'T3'
    desc = 'dispatch_message: exactly one POST to the configured endpoint with the encoded payload; 102/200/201/202/204 => acknowledge [this ack id], anything else or a transport error => nack [this ack id]'
    bounds = {'status': 'all 100..=999', 'attempts': 1}

    def __init__(self, ctx):
        install_tokens(ctx)

    def body(self, ip, p):
        ctx = ip.ctx
        ctx.on_enqueue = default_reply
        sub, tok, ack = p.fresh('sub_tok'), p.fresh('msg_tok'), p.fresh('ack')
        p.assume(z3.And(ack >= 1, ack < (1 << 63)))
        pm = pulled(ctx, tok, ack, z3.Int('EPOCH'), z3.IntVal(1))
        ep = p.fresh('endpoint')
        cfgv = mk(ctx, 'PushConfig', 'subscriptions/subscription', endpoint=StrTok(ep), oidc_token=Enum('Option', 0, {}), attributes=Enum('Option', 0, {}))
        fn = ctx.free_fn('dispatch_message')
        coro = run_to_end(ip.call_fn(fn, [ArcTok(sub, 'Subscription'), pm, cfgv, Opaque('reqwest::Client')]))
        res, k = run_async(ip, p, coro, budget=getattr(self, 'budget', 1))
        return {'sub': sub, 'ack': ack, 'ep': ep, 'log': list(p.log), 'tok': tok}

    def post(self, ip, p, res):
        ctx = ip.ctx
        log = res['log']
        sends = [e for e in log if e[0] == 'http.send']
        enq = [e for e in log if e[0] == 'enqueue']
        out = [Claim('exactly one HTTP request', len(sends) == 1)]
        rq = sends[0][1]
        out.append(Claim('it is a POST to the configured endpoint', isinstance(rq.method, Opaque) and str(rq.method.data).endswith('Method::POST') and rq.url.tok is not None and z3.simplify(rq.url.tok == res['ep'])))
        ser = [e for e in log if e[0] == 'serde_json::to_string']
        out.append(Claim('the body is the encoded payload of this message', len(ser) == 1 and rq.body is not None))
        ev = ip.src.enum_variants('SubscriptionRequest')
        # the attempt settles its own delivery (as here), or leaves that to the round (then C14.e decides it)
        out.append(Claim('at most one follow-up request, to this subscription', len(enq) == 0 or (len(enq) == 1 and enq[0][1] == 'subscription' and z3.simplify(enq[0][2] == res['sub']))))
        if len(enq) == 1:
            req = enq[0][3]
            kind = ev[req.discr][0]
            seq = req.payload[req.discr][0]
            resp = [e for e in log if e[0] == 'http.response']
            if resp:
                st = resp[0][1]
                accepted = z3.Or([st == c for c in (102, 200, 201, 202, 204)])
                if kind == 'AcknowledgeMessages':
                    out.append(Claim('acknowledged only on an accepted status', accepted))
                    out.append(Claim('acknowledges exactly this delivery', z3.And(seq.n == 1, ack_of(ctx, seq.elems[0]) == res['ack'])))
                    out.append(Cover('accepted 204', st == 204))
                    out.append(Cover('accepted 102', st == 102))
                elif kind == 'ModifyDeadline':
                    out.append(Claim('nacked only on a non-accepted status', z3.Not(accepted)))
                    m0 = seq.elems[0]
                    nd = fld(ctx, m0, 'DeadlineModification', 'new_deadline')
                    out.append(Claim('nacks exactly this delivery', z3.And(seq.n == 1, ack_of(ctx, fld(ctx, m0, 'DeadlineModification', 'ack_id')) == res['ack'],
                                                                          (nd.discr == 0) if isinstance(nd.discr, int) else nd.discr == 0)))
                    out.append(Cover('rejected 500', st == 500))
                    out.append(Cover('rejected 203', st == 203))
                else:
                    out.append(Claim('follow-up is an ack or a nack', False))
            else:
                out.append(Claim('transport error => nack', kind == 'ModifyDeadline'))
                out.append(Cover('transport error'))
        return out


class Registry(Obligation):
    id = 'C14.c'
    desc = 'PushSubscriptionsRegistry::set: Some(config) registers (keeps an existing entry), None unregisters, other entries untouched; entries() returns exactly the map'
    bounds = {'entries': 2}

    def body(self, ip, p):
        ctx = ip.ctx
        install_tokens(ctx)
        n1, n2 = sym_name(ctx, p, 'SubscriptionName', 'a'), sym_name(ctx, p, 'SubscriptionName', 'b')
        p.assume(z3.Not(eq_val(n1, n2)))
        u1, u2 = p.fresh('u1', 'bool'), p.fresh('u2', 'bool')
        c1, c2, c3 = Opaque('cfg1'), Opaque('cfg2'), Opaque('cfg-new')
        pstate = Cell(mk_single(ctx, 'PushSubscriptionsRegistryState', MapM([(u1, n1, c1), (u2, n2, c2)])), 'pstate')
        reg = mk(ctx, 'PushSubscriptionsRegistry', state=ArcCell(Cell(LockM('push_registry.state', pstate))))
        some_cfg = p.choose(2, 'set Some/None')
        arg = Enum('Option', 1, {1: (c3,)}) if some_cfg == 0 else Enum('Option', 0, {})
        run_to_end(ip.call_fn(ctx.fn('PushSubscriptionsRegistry', 'set'), [Ref(Loc(Cell(reg))), n1, arg]))
        ents = run_to_end(ip.call_fn(ctx.fn('PushSubscriptionsRegistry', 'entries'), [Ref(Loc(Cell(reg)))]))
        return {'some': some_cfg == 0, 'pstate': pstate, 'n1': n1, 'n2': n2, 'u1': u1, 'u2': u2, 'ents': ents, 'log': list(p.log)}

    def post(self, ip, p, res):
        ctx = ip.ctx
        mp = fld_single(ctx, res['pstate'].v, 'PushSubscriptionsRegistryState')
        out = [Claim('other entry untouched', mp.found(res['n2']) == res['u2'])]
        if res['some']:
            out.append(Claim('registered', mp.found(res['n1'])))
            out.append(Cover('registering a new name', z3.Not(res['u1'])))
        else:
            out.append(Claim('unregistered', z3.Not(mp.found(res['n1']))))
            out.append(Cover('unregistering an existing name', res['u1']))
        out.append(Claim('entries() lists exactly the registered subscriptions', res['ents'].n == mp.count()))
        lk = [e for e in res['log'] if e[0] in ('lock', 'unlock')]
        out.append(Claim('each call holds the lock only for its own duration', [e[0] for e in lk] == ['lock', 'unlock', 'lock', 'unlock']))
        return out


class PushConfigParse(Obligation):
    id = 'C14.d'
    desc = 'parse_push_config: an endpoint that does not start with "http" (after trimming) is rejected with InvalidArgument; otherwise the trimmed endpoint is kept'
    bounds = {'endpoint': '<= 12 bytes'}

    def body(self, ip, p):
        ctx = ip.ctx
        s = sym_str(p, 'endpoint', 12)
        cfgp = proto(ctx, 'PushConfig', push_endpoint=s, attributes=__import__('models_bytes').AttrMapTok(p.fresh('attrs')), authentication_method=Enum('Option', 0, {}))
        r = run_to_end(ip.call_fn(ctx.free_fn('parse_push_config'), [Ref(Loc(Cell(cfgp)))]))
        return s, r

    def post(self, ip, p, res):
        s, r = res
        ws = lambda b: z3.Or(b == 32, z3.And(b >= 9, b <= 13))
        trimmed = s.trim_matches_byte(ws)
        http = trimmed.starts_with(Str(list(b'http'), 0, 4))
        if variant_of(ip, r) == 1:
            st = r.payload[1][0]
            return [Claim('rejected only when the trimmed endpoint does not start with http', z3.Not(http)),
                    Claim('InvalidArgument', isinstance(st, StatusV) and st.code == 'invalid_argument'), Cover('rejected')]
        cfgv = r.payload[0][0]
        ep = fld(ip.ctx, cfgv, 'PushConfig', 'endpoint', 'subscriptions/subscription')
        return [Claim('accepted only with an http endpoint', http), Claim('trimmed endpoint stored', ep.eq(trimmed)), Cover('accepted with surrounding spaces', s.len_t() > trimmed.len_t())]


def obligations(ctx, cfg):
    d = Dispatch(ctx)
    d.budget = 1 if cfg['tier'] == 'quick' else 3
    from props.C11 import SubDelete
    from props.C09 import PushPayloadOb
    sd = SubDelete(ctx)
    sd.id = 'C14.c-delete-unregisters'
    pp = PushPayloadOb()
    pp.id = 'C14.a-payload'
    return [d, pp, sd, Registry(), PushConfigParse(),
            StepModify(ctx, 2, 2, 1, 'modify conserve', 'C14.b-nack-requeues'),
            StepAck(ctx, 2, 2, 1, 'ack-local', 'C14.b-ack-final')]


class PullAndDispatch(Obligation):
    """pull_and_dispatch_messages: one round of the push loop for one subscription"""
    id = 'C14.e-pull-and-dispatch'
    tier = 'T3'

    def __init__(self, ctx, k=2):
        self.k = k
        self.desc = ('pull_and_dispatch_messages: one pull; every delivery of the pulled page is POSTed exactly once and each is '
                     'acknowledged or nacked according to its own outcome; nothing is dropped; the round ends when all attempts ended')
        self.bounds = {'page': '<= %d deliveries' % k, 'status': 'all 100..=999 or transport error, per delivery', 'pacing timer': 'fires or not'}
        self.unroll = k + 4
        self.max_paths = 20000
        install_tokens(ctx)

    def body(self, ip, p):
        ctx = ip.ctx
        from framework import responder_of
        sub = p.fresh('sub_tok')
        toks = [p.fresh('msg%d_tok' % i) for i in range(self.k)]
        acks = [p.fresh('ack%d' % i) for i in range(self.k)]
        for i in range(self.k):
            p.assume(z3.And(acks[i] >= 1, acks[i] < (1 << 63)))
            for j in range(i + 1, self.k):
                p.assume(acks[i] != acks[j])
        n = p.fresh('page_len')
        p.assume(z3.And(n >= 0, n <= self.k))
        page = Seq([pulled(ctx, toks[i], acks[i], z3.Int('EPOCH'), z3.IntVal(1)) for i in range(self.k)], n, 'vec')
        ev = ctx.src.enum_variants('SubscriptionRequest')

        def on_enqueue(ip_, sender, req):
            if ev[req.discr][0] == 'PullMessages' and sender.kind == 'subscription':
                tx = responder_of(req)
                replies = getattr(p, 'replies', {})
                replies[tx.cid] = ok(page)
                p.replies = replies
                return
            default_reply(ip_, sender, req)
        ctx.on_enqueue = on_enqueue
        ep = p.fresh('endpoint')
        cfgv = mk(ctx, 'PushConfig', 'subscriptions/subscription', endpoint=StrTok(ep), oidc_token=Enum('Option', 0, {}), attributes=Enum('Option', 0, {}))
        if getattr(self, 'no_timers', False):
            p.timers_never_fire = True          # quick tier: every attempt ends before its 5 ms pacing timer
            p.select_in_order = True            # quick tier: select! polls its branches in declaration order
        fn = ctx.free_fn('pull_and_dispatch_messages')
        coro = run_to_end(ip.call_fn(fn, [ArcTok(sub, 'Subscription'), cfgv, Opaque('reqwest::Client')]))
        res, k = run_async(ip, p, coro, budget=getattr(self, 'budget', 1), max_polls=16)
        return {'sub': sub, 'acks': acks, 'toks': toks, 'n': n, 'log': list(p.log), 'ret': res}

    def post(self, ip, p, res):
        ctx = ip.ctx
        log = res['log']
        n = res['n']
        ev = ip.src.enum_variants('SubscriptionRequest')
        sends = [e for e in log if e[0] == 'http.send']
        enq = [e for e in log if e[0] == 'enqueue' and e[1] == 'subscription']
        kinds = [ev[e[3].discr][0] for e in enq]
        out = [Claim('the round ran to its end', res['ret'] is not None),
               Claim('exactly one pull', kinds.count('PullMessages') == 1 and kinds[0] == 'PullMessages'),
               Claim('one POST per pulled delivery', n == len(sends))]
        sends = sorted(sends, key=lambda e: log.index(e))
        out.append(Claim('nothing but acks and nacks follows the pull', all(kd in ('PullMessages', 'AcknowledgeMessages', 'ModifyDeadline') for kd in kinds)))
        # every settlement the round sends (one per delivery, or batched): (log index, 'ack' | 'nack', slot condition, ack id term)
        settled = []
        for li, e in enumerate(log):
            if e[0] != 'enqueue' or e[1] != 'subscription':
                continue
            req = e[3]
            kd = ev[req.discr][0]
            if kd == 'PullMessages':
                continue
            seq = req.payload[req.discr][0]
            for j, x in enumerate(seq.elems):
                if kd == 'AcknowledgeMessages':
                    settled.append((li, 'ack', seq.n > j, ack_of(ctx, x)))
                else:
                    nd = fld(ctx, x, 'DeadlineModification', 'new_deadline')
                    isn = (nd.discr == 0) if isinstance(nd.discr, int) else nd.discr == 0
                    settled.append((li, 'nack', z3.And(seq.n > j, isn), ack_of(ctx, fld(ctx, x, 'DeadlineModification', 'ack_id'))))
                    out.append(Claim('a modification sent by the push round is a nack', z3.Implies(seq.n > j, isn)))
        # outcome of each attempt, in the order the POSTs were started (= page order)
        outcomes = {}
        for li, e in enumerate(log):
            if e[0] == 'http.response':
                outcomes[id(e[2])] = (li, z3.Or([e[1] == c for c in (102, 200, 201, 202, 204)]))
            elif e[0] == 'http.error':
                outcomes[id(e[1])] = (li, z3.BoolVal(False))
        # which delivery a POST is for: by the message its JSON document names (the spawned attempts may run in any order
        # once the 5 ms pacing timer has fired)
        I = z3.IntSort()
        fmt_int, b64 = z3.Function('fmt_int', I, I), z3.Function('b64_STANDARD_enc_bytes', I, I)
        ser_at = [(li, e) for li, e in enumerate(log) if e[0] == 'serde_json::to_string']
        self._post_docs = []
        for k, snd in enumerate(sends):
            li_s = log.index(snd)
            docs = [e for li, e in ser_at if li < li_s]
            doc = docs[-1][1] if docs else None
            which = None
            if doc is not None:
                try:
                    pmsg = fld(ctx, doc, 'PushPayload', 'message')
                    gid, gdata = fld(ctx, pmsg, 'PushPayloadMessage', 'message_id').tok, fld(ctx, pmsg, 'PushPayloadMessage', 'data').tok
                except (ValueError, AttributeError, TypeError) as ex:
                    raise Unsupported('push payload has an unexpected shape: %s' % ex)
                for i, t in enumerate(res['toks']):
                    mid, mdata = z3.Function('msg_id', I, I)(t), z3.Function('msg_data', I, I)(t)
                    if z3.simplify(gid).eq(z3.simplify(fmt_int(mid))) or z3.simplify(gdata).eq(z3.simplify(b64(mdata))):
                        which = i
                        break
            out.append(Claim('POST %d carries a message of the pulled page' % k, which is not None))
            if which is None:
                continue
            self._post_docs.append((which, doc))
            i = which
            a_i = res['acks'][i]
            oc = outcomes.get(id(snd[1]))
            if oc is None:
                out.append(Claim('the attempt for delivery %d ended before the round ended' % i, False))
                continue
            li_o, accepted = oc
            acked = z3.Or([z3.And(c, x == a_i) for _, k_, c, x in settled if k_ == 'ack'] or [z3.BoolVal(False)])
            out.append(Claim('delivery %d: acknowledged iff its own attempt was accepted (else nacked)' % i, z3.Implies(n > i, acked == accepted)))
            # no waiting for the siblings: between the end of this attempt and its settlement no other attempt ends
            mine = [li for li, _, c, x in settled if p.check(z3.Not(z3.And(c, x == a_i))) == z3.unsat]
            # (only when the settlement itself was not kept waiting: a full mailbox may delay it past a sibling's answer)
            delayed = any(e[0] == 'pending' and e[1] in ('mpsc.send', 'oneshot.recv') for e in log[li_o:min(mine) if mine else len(log)])
            if mine and not delayed:
                between = [l2 for k2, (l2, _) in outcomes.items() if k2 != id(snd[1]) and li_o < l2 < min(mine)]
                out.append(Claim('delivery %d is settled as soon as its own attempt has ended, not after a sibling\'s answer' % i, len(between) == 0))
        for i in range(len(res['acks'])):
            a_i = res['acks'][i]
            cnt = z3.Sum([z3.If(z3.And(c, x == a_i), 1, 0) for _, _, c, x in settled] or [z3.IntVal(0)])
            out.append(Claim('delivery %d of the page is settled exactly once' % i, z3.Implies(n > i, cnt == 1)))
            posted = sum(1 for w, _ in self._post_docs if w == i)
            out.append(Claim('delivery %d of the page is POSTed exactly once' % i, z3.Implies(n > i, z3.BoolVal(posted == 1))))
        # what is POSTed for delivery i is the encoding of message i (data, both id spellings, attributes), for this subscription
        ser = [e for e in log if e[0] == 'serde_json::to_string']
        out.append(Claim('one JSON document per POST', len(ser) == len(sends)))
        for i, pl in self._post_docs:
            pmsg = fld(ctx, pl, 'PushPayload', 'message')
            g = lambda f: fld(ctx, pmsg, 'PushPayloadMessage', f)
            msg = res['toks'][i]
            mid, mdata, mattr = [z3.Function(n_, I, I)(msg) for n_ in ('msg_id', 'msg_data', 'msg_attrs')]
            out.append(Claim('the POST for delivery %d carries message %d: base64 of its data, its id in both spellings, its attributes' % (i, i),
                             z3.Implies(n > i, z3.And(g('data').tok == b64(mdata), g('message_id').tok == fmt_int(mid), g('message_id_dupe').tok == fmt_int(mid),
                                                      g('attributes').tok == mattr))))
        if len(res['toks']) >= 2:
            mattr = [z3.Function('msg_attrs', I, I)(t) for t in res['toks'][:2]]
            out.append(Cover('a message with attributes followed by one without', z3.And(n == 2, mattr[0] != 0, mattr[1] == 0)))
        out.append(Cover('two deliveries pushed', len(sends) == 2))
        out.append(Cover('empty page', len(sends) == 0))
        return out

    def model_info(self, p, m, res):
        return {'page_len': model_value(m, res['n'])} if res else {}


_obligations_c14 = obligations


def obligations(ctx, cfg):
    pd = PullAndDispatch(ctx, 2)
    pd.budget = 0
    pd.no_timers = cfg['tier'] == 'quick'
    if pd.no_timers:
        pd.bounds = dict(pd.bounds, **{'pacing timer': 'never fires (quick tier)', 'select! start index': '0 (quick tier)'})
    return _obligations_c14(ctx, cfg) + [pd]


class PushLoopIteration(Obligation):
    """push_loop::run: one iteration of the global loop"""
    id = 'C14.f-push-loop-iteration'
    tier = 'T3'
    desc = ('push_loop::run, one iteration: every registered push subscription that still exists gets exactly one pull-and-dispatch task with its own '
            'configuration; entries whose subscription is gone are skipped; then the loop sleeps for the interval (it never ends)')
    bounds = {'registry_entries': 2, 'subscriptions': 2}
    unroll = 6

    def __init__(self, ctx):
        install_tokens(ctx)

    def body(self, ip, p):
        ctx = ip.ctx
        from props.service import sym_managers
        ctx.on_enqueue = default_reply
        p.timers_never_fire = True
        h = sym_managers(ctx, p, 1, 2)
        sm = fld(ctx, h['subscriber'], 'SubscriberService', 'subscription_manager')
        U = ctx.tok_ufs
        names = [sym_name(ctx, p, 'SubscriptionName', 'r%d' % i) for i in range(2)]
        p.assume(z3.Not(eq_val(names[0], names[1])))
        used = [p.fresh('r%d_used' % i, 'bool') for i in range(2)]
        eps = [p.fresh('endpoint%d' % i) for i in range(2)]
        cfgs = [mk(ctx, 'PushConfig', 'subscriptions/subscription', endpoint=StrTok(eps[i]), oidc_token=Enum('Option', 0, {}), attributes=Enum('Option', 0, {}))
                for i in range(2)]
        pstate = Cell(mk_single(ctx, 'PushSubscriptionsRegistryState', MapM([(used[i], names[i], cfgs[i]) for i in range(2)])), 'pstate')
        reg = mk(ctx, 'PushSubscriptionsRegistry', state=ArcCell(Cell(LockM('push_registry.state', pstate))))
        interval = p.fresh('interval_ns')
        p.assume(z3.And(interval >= 0, interval < (1 << 62)))
        fn = ctx.free_fn('push_loop::run')
        coro = run_to_end(ip.call_fn(fn, [S(interval, 'Duration'), sm, reg]))
        from models_async import poll_future
        cell = Cell(coro, 'push-loop')
        r = run_to_end(poll_future(ip, Loc(cell)))
        return {'parked': r.discr == 1, 'log': list(p.log), 'names': names, 'used': used, 'eps': eps, 'h': h, 'interval': interval}

    def post(self, ip, p, res):
        ctx = ip.ctx
        U = ctx.tok_ufs
        log = res['log']
        subs = res['h']['subs']
        name_of = lambda t: mk(ctx, 'SubscriptionName', project_id=StrTok(U['sub_proj'](t)), subscription_id=StrTok(U['sub_id'](t)))
        exists = [z3.Or([z3.And(u, eq_val(name_of(t), res['names'][i])) for u, t in subs]) for i in range(2)]
        want = z3.Sum([z3.If(z3.And(res['used'][i], exists[i]), 1, 0) for i in range(2)])
        spawns = [e for e in log if e[0] == 'spawn']
        out = [Claim('the loop does not end: it sleeps after the iteration', res['parked']),
               Claim('one task per registered entry whose subscription exists', want == len(spawns))]
        sl = [e for e in log if e[0] == 'sleep']
        out.append(Claim('it sleeps for the configured interval', len(sl) == 1 and z3.simplify(sl[0][1].t == res['interval']) is not None and sl[0][1].t == res['interval']))
        seen = []
        for e in spawns:
            fut = e[1]
            toks = [v for v in find_values(fut, ArcTok) if v.kind == 'Subscription']
            eps = [v for v in find_values(fut, StrTok)]
            ok_ = len(toks) >= 1
            out.append(Claim('the task holds a subscription', ok_))
            if not ok_:
                continue
            t = toks[0].tok
            conj = []
            for i in range(2):
                conj.append(z3.And(res['used'][i], eq_val(name_of(t), res['names'][i]),
                                   z3.Or([x.tok == res['eps'][i] for x in eps] or [z3.BoolVal(False)])))
            out.append(Claim('the task is for a registered entry, with the subscription of that name and that entry\'s endpoint', z3.Or(conj)))
            seen.append(t)
        if len(seen) == 2:
            out.append(Claim('no subscription gets two tasks in one iteration', seen[0] != seen[1]))
        out.append(Cover('two tasks', len(spawns) == 2))
        out.append(Cover('an entry is skipped because its subscription is gone', z3.And(res['used'][0], z3.Not(exists[0]))))
        return out


_obligations_c14b = obligations


def obligations(ctx, cfg):
    return _obligations_c14b(ctx, cfg) + [PushLoopIteration(ctx)]


class PushStopsOnDelete(Obligation):
    id = 'C14.g-push-stops-on-delete'
    tier = 'T3'
    desc = ('pull_and_dispatch_messages suspended in the middle of a round (an HTTP exchange or a mailbox answer outstanding); the subscription is deleted: '
            'the round ends and no POST is started afterwards - also not by a task the round left running')
    bounds = {'page': '<= 2 deliveries', 'suspension': 'one leaf future pends once', 'select! start index': 0}
    unroll = 6
    max_paths = 20000

    def __init__(self, ctx):
        install_tokens(ctx)

    def body(self, ip, p):
        ctx = ip.ctx
        from framework import responder_of
        from models_async import poll_future, JoinHandleM
        sub = p.fresh('sub_tok')
        toks = [p.fresh('msg%d_tok' % i) for i in range(2)]
        acks = [p.fresh('ack%d' % i) for i in range(2)]
        p.assume(z3.And(acks[0] >= 1, acks[1] >= 1, acks[0] != acks[1], acks[0] < (1 << 63), acks[1] < (1 << 63)))
        n = p.fresh('page_len')
        p.assume(z3.And(n >= 1, n <= 2))
        page = Seq([pulled(ctx, toks[i], acks[i], z3.Int('EPOCH'), z3.IntVal(1)) for i in range(2)], n, 'vec')
        ev = ctx.src.enum_variants('SubscriptionRequest')

        def on_enqueue(ip_, sender, req):
            if ev[req.discr][0] == 'PullMessages' and sender.kind == 'subscription':
                tx = responder_of(req)
                replies = getattr(p, 'replies', {})
                replies[tx.cid] = ok(page)
                p.replies = replies
                return
            default_reply(ip_, sender, req)
        ctx.on_enqueue = on_enqueue
        p.select_in_order = True
        p.timers_never_fire = True
        p.phase = 'A'
        cfgv = mk(ctx, 'PushConfig', 'subscriptions/subscription', endpoint=StrTok(p.fresh('endpoint')), oidc_token=Enum('Option', 0, {}), attributes=Enum('Option', 0, {}))
        coro = run_to_end(ip.call_fn(ctx.free_fn('pull_and_dispatch_messages'), [ArcTok(sub, 'Subscription'), cfgv, Opaque('reqwest::Client')]))
        cell = Cell(coro, 'round')
        p.pending_budget = 1
        r = run_to_end(poll_future(ip, Loc(cell)))
        if r.discr == 0:
            raise Infeasible()          # the round was never suspended: nothing to delete under
        mark = len(p.log)
        p.phase = 'B'                   # the subscription is deleted: its deletion signal is resolved from now on
        p.pending_budget = 0
        done = False
        for _ in range(6):
            r = run_to_end(poll_future(ip, Loc(cell)))
            if r.discr == 0:
                done = True
                break
        # whatever the round left running keeps being polled by the runtime
        for h in getattr(p, 'spawned_handles', []):
            if h.out is None:
                for _ in range(8):
                    rr = run_to_end(poll_future(ip, Loc(Cell(h, 'detached'))))
                    if rr.discr == 0:
                        break
        return {'done': done, 'mark': mark, 'log': list(p.log)}

    def post(self, ip, p, res):
        after = [e for e in res['log'][res['mark']:] if e[0] == 'http.send']
        before = [e for e in res['log'][:res['mark']] if e[0] == 'http.send']
        return [Claim('the round ends once the subscription is deleted', res['done']),
                Claim('no POST is started after the deletion', len(after) == 0),
                Cover('deleted while a POST was outstanding', len(before) >= 1),
                Cover('deleted before the first POST', len(before) == 0)]


_obligations_c14c = obligations


def obligations(ctx, cfg):
    return _obligations_c14c(ctx, cfg) + [PushStopsOnDelete(ctx)]


class PushRegistration(Obligation):
    """the registration lifecycle, from the real constructor: a subscription is in the push registry exactly from its start (when it has an
    endpoint) until its deletion has been processed"""
    id = 'C14.h-registration-lifecycle'
    tier = 'T3'
    desc = ('SubscriptionActor::start run for real on a registry holding one other entry: afterwards the subscription is registered iff it has a push config '
            '(with that config); the spawned actor task is then fed Delete through its mailbox: afterwards the registry no longer lists it; the other entry is '
            'untouched throughout')
    bounds = {'registry': 'one other entry (present or not)', 'history': 'start, Delete', 'select! start index': 0}
    unroll = 6

    def __init__(self, ctx):
        install_tokens(ctx)

    def body(self, ip, p):
        ctx = ip.ctx
        from models_async import ReceiverM, OneshotTx, poll_future
        ctx.on_enqueue = default_reply
        p.timers_never_fire = True
        p.signals_never_fire = True
        p.select_in_order = True
        name, other = sym_name(ctx, p, 'SubscriptionName', 'own'), sym_name(ctx, p, 'SubscriptionName', 'other')
        p.assume(z3.Not(eq_val(name, other)))
        secs = p.fresh('ack_deadline_s')
        p.assume(z3.And(secs >= 10, secs <= 600))
        has_push = p.choose(2, 'push config Some/None') == 0
        ep = p.fresh('endpoint')
        cfgv = mk(ctx, 'PushConfig', 'subscriptions/subscription', endpoint=StrTok(ep), oidc_token=Enum('Option', 0, {}), attributes=Enum('Option', 0, {}))
        info = mk(ctx, 'SubscriptionInfo', name=name, ack_deadline=S(secs * NS, 'Duration'),
                  push_config=Enum('Option', 1, {1: (cfgv,)}) if has_push else Enum('Option', 0, {}))
        observer = run_to_end(ip.call_fn(ctx.fn('SubscriptionObserver', 'new'), []))
        mstate = Cell(mk_opt(ctx, 'State', 'subscriptions/subscription_manager', subscriptions=MapM([]), next_id=S(p.fresh('s_next'), 'u32')), 'smgr-state')
        delegate = mk(ctx, 'SubscriptionManagerDelegate', state=ArcCell(Cell(LockM('subscription_manager.state', mstate))))
        u2 = p.fresh('other_registered', 'bool')
        pstate = Cell(mk_single(ctx, 'PushSubscriptionsRegistryState', MapM([(u2, other, mk(ctx, 'PushConfig', 'subscriptions/subscription', endpoint=StrTok(p.fresh('other_endpoint')), oidc_token=Enum('Option', 0, {}), attributes=Enum('Option', 0, {})))])), 'pstate')
        reg = mk(ctx, 'PushSubscriptionsRegistry', state=ArcCell(Cell(LockM('push_registry.state', pstate))))
        n0 = len(p.log)
        run_to_end(ip.call_fn(ctx.fn('SubscriptionActor', 'start'),
                              [S(p.fresh('iid'), 'u32'), info, ArcTok(p.fresh('topic_tok'), 'Topic'), ArcCell(Cell(observer, 'observer')), reg, delegate]))
        mp = fld_single(ctx, pstate.v, 'PushSubscriptionsRegistryState')
        after_start = (mp.found(name), mp.found(other), mp)
        spawned = [e for e in p.log[n0:] if e[0] == 'spawn']
        if len(spawned) != 1:
            raise Unsupported('SubscriptionActor::start spawned %d tasks' % len(spawned))
        task = spawned[0][1]
        ev = ctx.src.enum_variants('SubscriptionRequest')
        idx = {n: i for i, (n, _) in enumerate(ev)}
        p.counter += 1
        tx = OneshotTx(p.counter)
        rx = ReceiverM([Enum('SubscriptionRequest', idx['Delete'], {idx['Delete']: (tx,)})])
        ups = list(task.upvars) if hasattr(task, 'upvars') else None
        if ups is None:
            raise Unsupported('spawned task is not a coroutine value')
        k = [i for i, u in enumerate(ups) if isinstance(u, Opaque) and u.tag == 'mpsc.Receiver']
        if len(k) != 1:
            raise Unsupported('the actor task does not own exactly one mailbox')
        ups[k[0]] = rx
        cell = Cell(Enum(task.name, task.discr, task.payload, ups), 'actor-task')
        for _ in range(4):
            r = run_to_end(poll_future(ip, Loc(cell)))
            if r.discr == 0 or getattr(p, 'sent', {}).get(tx.cid) is not None:
                break
        mp2 = fld_single(ctx, pstate.v, 'PushSubscriptionsRegistryState')
        return {'has_push': has_push, 'after_start': after_start, 'answer': getattr(p, 'sent', {}).get(tx.cid), 'after_delete': (mp2.found(name), mp2.found(other)),
                'u2': u2, 'ep': ep, 'name': name}

    def post(self, ip, p, res):
        ctx = ip.ctx
        own, oth, mp = res['after_start']
        out = [Claim('after start: registered iff the subscription has a push config', own == z3.BoolVal(res['has_push'])),
               Claim('after start: the other entry is untouched', oth == res['u2'])]
        if res['has_push']:
            got = mp.lookup(res['name'])
            if isinstance(got, Agg):
                out.append(Claim('registered with the subscription\'s own endpoint', fld(ctx, got, 'PushConfig', 'endpoint', 'subscriptions/subscription').tok == res['ep']))
        ans = res['answer']
        out.append(Claim('the deletion was answered Ok', ans is not None and ans.discr == 0))
        own2, oth2 = res['after_delete']
        out.append(Claim('after the deletion: not registered', z3.Not(own2)))
        out.append(Claim('after the deletion: the other entry is untouched', oth2 == res['u2']))
        out.append(Cover('a push subscription'), ) if res['has_push'] else out.append(Cover('a pull subscription'))
        return out


_obligations_c14h = obligations


def obligations(ctx, cfg):
    # a CreateSubscription that is refused (name taken, other project) must not start anything: starting the actor is what registers
    # a push endpoint (C10.a/b's obligation under C14's id)
    from props.C16 import CreateSubscription
    cs = CreateSubscription(ctx, abandon=False)
    cs.id = 'C14.i-refused-create-starts-nothing'
    return _obligations_c14h(ctx, cfg) + [PushRegistration(ctx), cs]
