"""C14 - push subscriptions deliver at least once until the endpoint accepts (per-attempt logic)."""
import z3
from framework import Obligation, Claim, Cover, model_value, run_async, find_values
from values import *
from interp import run_to_end
from models_coll import Seq, MapM
from models_core import ok, err, variant_of, deref_all
from models_sync import ArcTok, ArcCell, LockM, StatusV, HttpRequestM
from models_str import StrTok, Str, sym_str
from props.common import *
from props.service import proto
from props.C16 import default_reply
from props.actor_steps import StepModify, StepExpire, StepAck, StepPull

OUTSIDE = ['push_loop::run (interval, one spawned task per entry), the 5 ms pacing and JoinSet of pull_and_dispatch_messages',
           'reqwest/hyper; what "no answer within the deadline" does to the still-pending HTTP future; that pushing stops on deletion']
ASSUMPTIONS = ['the HTTP exchange is a leaf future with an arbitrary outcome: any status 100..=999 or a transport error']


class Dispatch(Obligation):
    id = 'C14.a'
    tier = 'T3'
    desc = 'dispatch_message: exactly one POST to the configured endpoint with the encoded payload; 102/200/201/202/204 => acknowledge [this ack id], anything else or a transport error => nack [this ack id]'
    bounds = {'status': 'all 100..=999', 'attempts': 1}

    def __init__(self, ctx):
        install_tokens(ctx)

    def body(self, ip, p):
        ctx = ip.ctx
        ctx.on_enqueue = default_reply
        sub, tok, ack = p.fresh('sub_tok'), p.fresh('msg_tok'), p.fresh('ack')
        p.assume(z3.And(ack >= 1, ack < (1 << 63)))
        pm = pulled(ctx, tok, ack, z3.Int('EPOCH'), z3.IntVal(1))
        ep = p.fresh('endpoint')
        cfgv = mk(ctx, 'PushConfig', 'subscriptions/subscription', endpoint=StrTok(ep), oidc_token=Enum('Option', 0, {}), attributes=Enum('Option', 0, {}))
        fn = ctx.free_fn('dispatch_message')
        coro = run_to_end(ip.call_fn(fn, [ArcTok(sub, 'Subscription'), pm, cfgv, Opaque('reqwest::Client')]))
        res, k = run_async(ip, p, coro, budget=getattr(self, 'budget', 1))
        return {'sub': sub, 'ack': ack, 'ep': ep, 'log': list(p.log), 'tok': tok}

    def post(self, ip, p, res):
        ctx = ip.ctx
        log = res['log']
        sends = [e for e in log if e[0] == 'http.send']
        enq = [e for e in log if e[0] == 'enqueue']
        out = [Claim('exactly one HTTP request', len(sends) == 1)]
        rq = sends[0][1]
        out.append(Claim('it is a POST to the configured endpoint', isinstance(rq.method, Opaque) and str(rq.method.data).endswith('Method::POST') and rq.url.tok is not None and z3.simplify(rq.url.tok == res['ep'])))
        ser = [e for e in log if e[0] == 'serde_json::to_string']
        out.append(Claim('the body is the encoded payload of this message', len(ser) == 1 and rq.body is not None))
        ev = ip.src.enum_variants('SubscriptionRequest')
        out.append(Claim('exactly one follow-up request, to this subscription', len(enq) == 1 and enq[0][1] == 'subscription' and z3.simplify(enq[0][2] == res['sub'])))
        if len(enq) == 1:
            req = enq[0][3]
            kind = ev[req.discr][0]
            seq = req.payload[req.discr][0]
            resp = [e for e in log if e[0] == 'http.response']
            if resp:
                st = resp[0][1]
                accepted = z3.Or([st == c for c in (102, 200, 201, 202, 204)])
                if kind == 'AcknowledgeMessages':
                    out.append(Claim('acknowledged only on an accepted status', accepted))
                    out.append(Claim('acknowledges exactly this delivery', z3.And(seq.n == 1, ack_of(ctx, seq.elems[0]) == res['ack'])))
                    out.append(Cover('accepted 204', st == 204))
                    out.append(Cover('accepted 102', st == 102))
                elif kind == 'ModifyDeadline':
                    out.append(Claim('nacked only on a non-accepted status', z3.Not(accepted)))
                    m0 = seq.elems[0]
                    nd = fld(ctx, m0, 'DeadlineModification', 'new_deadline')
                    out.append(Claim('nacks exactly this delivery', z3.And(seq.n == 1, ack_of(ctx, fld(ctx, m0, 'DeadlineModification', 'ack_id')) == res['ack'],
                                                                          (nd.discr == 0) if isinstance(nd.discr, int) else nd.discr == 0)))
                    out.append(Cover('rejected 500', st == 500))
                    out.append(Cover('rejected 203', st == 203))
                else:
                    out.append(Claim('follow-up is an ack or a nack', False))
            else:
                out.append(Claim('transport error => nack', kind == 'ModifyDeadline'))
                out.append(Cover('transport error'))
        return out


class Registry(Obligation):
    id = 'C14.c'
    desc = 'PushSubscriptionsRegistry::set: Some(config) registers (keeps an existing entry), None unregisters, other entries untouched; entries() returns exactly the map'
    bounds = {'entries': 2}

    def body(self, ip, p):
        ctx = ip.ctx
        install_tokens(ctx)
        n1, n2 = sym_name(ctx, p, 'SubscriptionName', 'a'), sym_name(ctx, p, 'SubscriptionName', 'b')
        p.assume(z3.Not(eq_val(n1, n2)))
        u1, u2 = p.fresh('u1', 'bool'), p.fresh('u2', 'bool')
        c1, c2, c3 = Opaque('cfg1'), Opaque('cfg2'), Opaque('cfg-new')
        pstate = Cell(mk(ctx, 'PushSubscriptionsRegistryState', push_subscriptions=MapM([(u1, n1, c1), (u2, n2, c2)])), 'pstate')
        reg = mk(ctx, 'PushSubscriptionsRegistry', state=ArcCell(Cell(LockM('push_registry.state', pstate))))
        some_cfg = p.choose(2, 'set Some/None')
        arg = Enum('Option', 1, {1: (c3,)}) if some_cfg == 0 else Enum('Option', 0, {})
        run_to_end(ip.call_fn(ctx.fn('PushSubscriptionsRegistry', 'set'), [Ref(Loc(Cell(reg))), n1, arg]))
        ents = run_to_end(ip.call_fn(ctx.fn('PushSubscriptionsRegistry', 'entries'), [Ref(Loc(Cell(reg)))]))
        return {'some': some_cfg == 0, 'pstate': pstate, 'n1': n1, 'n2': n2, 'u1': u1, 'u2': u2, 'ents': ents, 'log': list(p.log)}

    def post(self, ip, p, res):
        ctx = ip.ctx
        mp = fld(ctx, res['pstate'].v, 'PushSubscriptionsRegistryState', 'push_subscriptions')
        out = [Claim('other entry untouched', mp.found(res['n2']) == res['u2'])]
        if res['some']:
            out.append(Claim('registered', mp.found(res['n1'])))
            out.append(Cover('registering a new name', z3.Not(res['u1'])))
        else:
            out.append(Claim('unregistered', z3.Not(mp.found(res['n1']))))
            out.append(Cover('unregistering an existing name', res['u1']))
        out.append(Claim('entries() lists exactly the registered subscriptions', res['ents'].n == mp.count()))
        lk = [e for e in res['log'] if e[0] in ('lock', 'unlock')]
        out.append(Claim('each call holds the lock only for its own duration', [e[0] for e in lk] == ['lock', 'unlock', 'lock', 'unlock']))
        return out


class PushConfigParse(Obligation):
    id = 'C14.d'
    desc = 'parse_push_config: an endpoint that does not start with "http" (after trimming) is rejected with InvalidArgument; otherwise the trimmed endpoint is kept'
    bounds = {'endpoint': '<= 12 bytes'}

    def body(self, ip, p):
        ctx = ip.ctx
        s = sym_str(p, 'endpoint', 12)
        cfgp = proto(ctx, 'PushConfig', push_endpoint=s, attributes=__import__('models_bytes').AttrMapTok(p.fresh('attrs')), authentication_method=Enum('Option', 0, {}))
        r = run_to_end(ip.call_fn(ctx.free_fn('parse_push_config'), [Ref(Loc(Cell(cfgp)))]))
        return s, r

    def post(self, ip, p, res):
        s, r = res
        ws = lambda b: z3.Or(b == 32, z3.And(b >= 9, b <= 13))
        trimmed = s.trim_matches_byte(ws)
        http = trimmed.starts_with(Str(list(b'http'), 0, 4))
        if variant_of(ip, r) == 1:
            st = r.payload[1][0]
            return [Claim('rejected only when the trimmed endpoint does not start with http', z3.Not(http)),
                    Claim('InvalidArgument', isinstance(st, StatusV) and st.code == 'invalid_argument'), Cover('rejected')]
        cfgv = r.payload[0][0]
        ep = fld(ip.ctx, cfgv, 'PushConfig', 'endpoint', 'subscriptions/subscription')
        return [Claim('accepted only with an http endpoint', http), Claim('trimmed endpoint stored', ep.eq(trimmed)), Cover('accepted with surrounding spaces', s.len_t() > trimmed.len_t())]


def obligations(ctx, cfg):
    d = Dispatch(ctx)
    d.budget = 1 if cfg['tier'] == 'quick' else 3
    from props.C11 import SubDelete
    from props.C09 import PushPayloadOb
    sd = SubDelete(ctx)
    sd.id = 'C14.c-delete-unregisters'
    pp = PushPayloadOb()
    pp.id = 'C14.a-payload'
    return [d, pp, sd, Registry(), PushConfigParse(),
            StepModify(ctx, 2, 2, 1, 'modify conserve', 'C14.b-nack-requeues'),
            StepAck(ctx, 2, 2, 1, 'ack-local', 'C14.b-ack-final')]
