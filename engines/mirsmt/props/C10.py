"""C10 - topic and subscription namespaces behave as atomic maps (sequential specification + lock discipline)."""
import z3
from framework import Obligation, Claim, Cover, model_value, run_async, find_values
from values import *
from interp import run_to_end
from models_coll import Seq, MapM
from models_core import ok, err, variant_of
from models_async import OneshotTx
from models_sync import ArcTok, ArcCell, LockM, StatusV, WeakV
from models_str import StrTok, _tok_parse_ok
from props.common import *
from props.service import *
from props.C09 import CreateTopic
from props.C16 import CreateSubscription

OUTSIDE = ['concurrent histories of more than three control-plane calls, or with data-plane calls inside the race (decided: the sequential specification of every operation, and C10.f: two or three racing create/delete/get calls on possibly equal names, interleaved at lock acquisitions, equal some sequential order)',
           '"every later request observes it" also rests on A1 and on the order of effects in SubscriptionActor::delete (C11.c)']
ASSUMPTIONS = ['A4: parking_lot locks are mutual exclusion', 'name parsers abstracted in handler obligations (decided in C17.a / C18)']


def typed_reply(ip, sender, req):
    """well-typed reply the actor would eventually send"""
    ctx = ip.ctx
    p = ip.path
    from framework import responder_of
    tx0 = responder_of(req)
    if tx0 is None:
        return
    txs = [tx0]
    replies = getattr(p, 'replies', {})
    ev = ip.src.enum_variants(req.name)
    variant = ev[req.discr][0]
    if variant == 'GetInfo':
        nm = sym_name(ctx, p, 'SubscriptionName', 'info')
        secs = p.fresh('info_ack_s')
        p.assume(z3.And(secs >= 10, secs < (1 << 31)))
        val = ok(mk(ctx, 'SubscriptionInfo', name=nm, ack_deadline=S(secs * NS, 'Duration'), push_config=Enum('Option', 0, {})))
        p.info_secs = secs
    elif variant == 'PullMessages':
        n = p.fresh('pulled_n')
        p.assume(z3.And(n >= 0, n <= 1))
        val = ok(Seq([pulled(ctx, p.fresh('ptok'), p.fresh('pack'), z3.Int('EPOCH'), z3.IntVal(1))], n))
        p.pulled_lens = getattr(p, 'pulled_lens', []) + [n]
    elif variant == 'PublishMessages':
        val = ok(mk(ctx, 'PublishMessagesResponse', message_ids=Seq([mk(ctx, 'MessageId', value=S(p.fresh('mid'), 'u64'))], 1)))
    elif variant == 'ListSubscriptions':
        val = ok(mk(ctx, 'SubscriptionsPage', subscriptions=Seq.empty(), offset=Enum('Option', 0, {})))
    else:
        val = ok(UNIT)
    replies[txs[0].cid] = val
    p.replies = replies


class Handler(Obligation):
    tier = 'T3'

    def __init__(self, ctx, svc, method, mkreq, which='subscription', extra_invalid=None):
        self.svc, self.method, self.mkreq, self.which, self.extra_invalid = svc, method, mkreq, which, extra_invalid
        self.id = 'C10.c-%s' % method
        self.desc = '%s handler: absent name -> NOT_FOUND, malformed field -> INVALID_ARGUMENT, both before any effect; otherwise exactly one request to the named resource' % method
        self.bounds = {'topics': 1, 'subscriptions': 1}
        self.unroll = 6
        self.allow_out_of_bound = method == 'pull'     # a consumer that keeps finding nothing loops until the timer
        install_tokens(ctx)

    def body(self, ip, p):
        ctx = ip.ctx
        ctx.on_enqueue = typed_reply
        h = sym_managers(ctx, p)
        names = abstract_name_parsers(ip, p)
        req, extra = self.mkreq(ctx, p)
        fut = start_handler(ip, p, self.svc, self.method, h[self.svc], request(req))
        res, k = run_async(ip, p, fut, budget=0)
        return {'h': h, 'names': names, 'ret': res, 'log': list(p.log), 'extra': extra, 'pulled_lens': list(getattr(p, 'pulled_lens', []))}

    def post(self, ip, p, res):
        ctx = ip.ctx
        U = ctx.tok_ufs
        r = res['ret']
        log = res['log']
        m = mutating(log)
        h = res['h']
        out = []
        # which name is looked up
        kind = 'topic' if self.which == 'topic' else 'subscription'
        parsed = [x for x in res['names']['results'] if x[0] == kind]
        ents = h['topics'] if kind == 'topic' else h['subs']
        pj, idf = (U['topic_proj'], U['topic_id']) if kind == 'topic' else (U['sub_proj'], U['sub_id'])
        present = None
        if parsed:
            _, okv, a, b = parsed[-1]
            present = z3.Or([z3.And(u, pj(t) == a, idf(t) == b) for u, t in ents])
        locks = [e for e in log if e[0] in ('lock', 'unlock')]
        out.append(Claim('every lock acquired is released before the handler returns', len(locks) % 2 == 0 and all(locks[i][0] == 'lock' and locks[i + 1][0] == 'unlock' for i in range(0, len(locks), 2))))
        if variant_of(ip, r) == 1:
            st = r.payload[1][0]
            code = status_code(st)
            out.append(Claim('an error status is returned', code is not None))
            if code == 'not_found':
                out.append(Claim('NOT_FOUND only when the name is absent', z3.Not(present) if present is not None else False))
                out.append(Claim('NOT_FOUND before any effect', len(m) == 0))
                out.append(Cover('not found'))
            elif code == 'invalid_argument':
                bad = [z3.Not(x[1]) for x in res['names']['results']]
                if self.extra_invalid:
                    bad.append(self.extra_invalid(res['extra']))
                out.append(Claim('INVALID_ARGUMENT only for a malformed field', z3.Or(bad) if bad else False))
                out.append(Claim('INVALID_ARGUMENT before any effect', len(m) == 0))
                out.append(Cover('invalid argument'))
            else:
                out.append(Claim('other errors only after the resource was found', present if present is not None else True))
        else:
            out.append(Claim('success only when the name is present and every field is well-formed',
                             z3.And([present if present is not None else True] + [x[1] for x in res['names']['results']])))
            enq = [e for e in m if e[0] == 'enqueue']
            if self.method == 'pull':
                timer = any(e[0] == 'ready' and e[1] == 'sleep' for e in log)
                resp = r.payload[0][0].fields[0]
                order = ctx.src.struct_fields('PullResponse', 'pubsub_proto_generated')
                msgs = resp.fields[order.index('received_messages')]
                ri = res['extra']['ri']
                out.append(Claim('C15.d: an empty response only with return_immediately or after the server-side wait limit',
                                 z3.Implies(msgs.n == 0, z3.Or(ri, z3.BoolVal(timer)))))
                out.append(Claim('without the timer firing the subscription was pulled', timer or len(enq) >= 1))
                mxs = [e[3].payload[e[3].discr][0] for e in enq]
                mx = res['extra']['mx']
                out.append(Claim('C15.b: for max_messages >= 1 the limit handed to the subscription never exceeds it (a wrapped or saturated 16-bit value is below it; 0 hands out one message)',
                                 z3.Implies(mx >= 1, z3.And([x.t <= mx for x in mxs] or [True]))))
                lens = res.get('pulled_lens') or []
                if lens:
                    out.append(Claim('C15.a: the response carries exactly the messages the last pull handed out', msgs.n == lens[-1]))
                out.append(Cover('returned after waiting for the signal', len(enq) >= 2))
                out.append(Cover('timer fired'), ) if timer else None
                out = [o for o in out if o is not None]
            if self.method not in ('get_topic',) and (self.method not in ('pull', 'publish') or enq):
                out.append(Claim('the request goes to the resource that was looked up',
                                 len(enq) >= 1 and all(e[1] == kind for e in enq) and
                                 z3.simplify(z3.And([z3.Or([z3.And(u, t == e[2]) for u, t in ents]) for e in enq])) is not None))
                if enq and parsed:
                    _, okv, a, b = parsed[-1]
                    out.append(Claim('... i.e. the one registered under the requested name', z3.And([z3.And(pj(e[2]) == a, idf(e[2]) == b) for e in enq])))
            out.append(Cover('success'))
        return out


def req_sub_only(msg, field='subscription'):
    def mkreq(ctx, p):
        return proto(ctx, msg, **{field: StrTok(p.fresh('name_field'))}), {}
    return mkreq


def req_ack(ctx, p):
    ids = [StrTok(p.fresh('ack%d' % i)) for i in range(2)]
    n = p.fresh('n_acks')
    p.assume(z3.And(n >= 0, n <= 2))
    return proto(ctx, 'AcknowledgeRequest', subscription=StrTok(p.fresh('name_field')), ack_ids=Seq(ids, n)), {'ids': ids, 'n': n}


def req_modack(ctx, p):
    ids = [StrTok(p.fresh('ack%d' % i)) for i in range(2)]
    n = p.fresh('n_acks')
    p.assume(z3.And(n >= 0, n <= 2))
    secs = p.fresh('secs')
    p.assume(z3.And(secs >= -(1 << 31), secs < (1 << 31)))
    return proto(ctx, 'ModifyAckDeadlineRequest', subscription=StrTok(p.fresh('name_field')), ack_ids=Seq(ids, n), ack_deadline_seconds=S(secs, 'i32')), \
        {'ids': ids, 'n': n, 'secs': secs}


def req_pull(ctx, p):
    mx = p.fresh('max_messages')
    p.assume(z3.And(mx >= -(1 << 31), mx < (1 << 31)))
    ri = p.fresh('return_immediately', 'bool')
    return proto(ctx, 'PullRequest', subscription=StrTok(p.fresh('name_field')), return_immediately=S(ri, 'bool'), max_messages=S(mx, 'i32')), {'mx': mx, 'ri': ri}


def req_publish(ctx, p):
    from props.C09 import BytesTok, AttrMapTok
    ds = [(p.fresh('data%d' % i), p.fresh('attrs%d' % i)) for i in range(2)]
    n = p.fresh('n_msgs')
    p.assume(z3.And(n >= 0, n <= 2))
    msgs = [proto(ctx, 'PubsubMessage', data=BytesTok(d), attributes=AttrMapTok(a)) for d, a in ds]
    return proto(ctx, 'PublishRequest', topic=StrTok(p.fresh('name_field')), messages=Seq(msgs, n)), {'ds': ds, 'n': n}


class PublishHandler(Handler):
    """Publish: the generic handler claims plus: the batch handed to the topic is the request's messages in order (data and attributes
    intact), and the response carries the ids the topic answered with, in order"""

    def __init__(self, ctx):
        Handler.__init__(self, ctx, 'publisher', 'publish', req_publish, which='topic')
        self.desc += '; the batch handed to the topic is the request\'s, in order and intact; the response lists the ids the topic assigned, in order'

    def post(self, ip, p, res):
        out = Handler.post(self, ip, p, res)
        ctx = ip.ctx
        r = res['ret']
        if not (isinstance(r, Enum) and isinstance(r.discr, int) and r.discr == 0):
            return out
        ev = ip.src.enum_variants('TopicRequest')
        enq = [e for e in res['log'] if e[0] == 'enqueue' and e[1] == 'topic']
        if not enq:
            # an empty Publish has nothing to hand to the topic: whether the handler still sends an empty batch is not a property
            out.append(Claim('no request to the topic only for an empty batch', res['extra']['n'] == 0))
            return out
        out.append(Claim('a non-empty batch goes to the topic as exactly one PublishMessages request (what keeps the messages of one Publish contiguous)',
                         len(enq) == 1 and ev[enq[0][3].discr][0] == 'PublishMessages'))
        if len(enq) != 1:
            return out
        batch = enq[0][3].payload[enq[0][3].discr][0]
        ex = res['extra']
        out.append(Claim('the whole batch, nothing added', batch.n == ex['n']))
        for i, m in enumerate(batch.elems[:len(ex['ds'])]):
            tm = m if isinstance(m, Agg) else read_loc(m.deref_loc(ip))
            d, a = ex['ds'][i]
            data = fld(ctx, tm, 'TopicMessage', 'data')
            attrs = fld(ctx, tm, 'TopicMessage', 'attributes')
            ad = attrs.discr if not isinstance(attrs.discr, int) else z3.IntVal(attrs.discr)
            conj = [data.tok == d]
            if 1 in attrs.payload:
                conj.append(z3.Implies(ad == 1, attrs.payload[1][0].tok == a))
            out.append(Claim('message %d of the batch is message %d of the request, data and attributes intact' % (i, i), z3.Implies(ex['n'] > i, z3.And(conj))))
        resp = r.payload[0][0].fields[0]
        order = ctx.src.struct_fields('PublishResponse', 'pubsub_proto_generated')
        ids = resp.fields[order.index('message_ids')]
        out.append(Claim('one id per id the topic answered with', ids.n == 1))
        out.append(Cover('two messages published', ex['n'] == 2))
        return out


def bad_ack(extra):
    return z3.Or([z3.And(extra['n'] > i, z3.Not(_tok_parse_ok(t.tok))) for i, t in enumerate(extra['ids'])])


def bad_modack(extra):
    return z3.Or(bad_ack(extra), z3.And(extra['n'] > 0, extra['secs'] < 0))


class Readback(Obligation):
    id = 'C10.e'
    desc = 'map_to_subscription_resource: reports the name, topic (or the deleted sentinel), ack deadline in seconds and push endpoint of the subscription it is given'
    bounds = {}

    def body(self, ip, p):
        ctx = ip.ctx
        install_tokens(ctx)
        sub = p.fresh('sub_tok')
        secs = p.fresh('ack_s')
        p.assume(z3.And(secs >= 10, secs < (1 << 31)))
        has_push = p.fresh('has_push', 'bool')
        ep = p.fresh('endpoint')
        push = mk(ctx, 'PushConfig', 'subscriptions/subscription', endpoint=StrTok(ep), oidc_token=Enum('Option', 0, {}), attributes=Enum('Option', 0, {}))
        info = mk(ctx, 'SubscriptionInfo', name=sym_name(ctx, p, 'SubscriptionName', 'n'), ack_deadline=S(secs * NS, 'Duration'),
                  push_config=Enum('Option', z3.If(has_push, 1, 0), {1: (push,)}))
        subv = ctx.tok_kinds['Subscription'](ip, sub)
        r = run_to_end(ip.call_fn(ctx.free_fn('map_to_subscription_resource'), [Ref(Loc(Cell(subv))), Ref(Loc(Cell(info)))]))
        return sub, secs, has_push, ep, r

    def post(self, ip, p, res):
        ctx = ip.ctx
        U = ctx.tok_ufs
        sub, secs, has_push, ep, r = res
        order = ctx.src.struct_fields('Subscription', 'pubsub_proto_generated')
        g = lambda f: r.fields[order.index(f)]
        out = [Claim('ack deadline read back in seconds', g('ack_deadline_seconds').t == secs)]
        pc = g('push_config')
        d = pc.discr if not isinstance(pc.discr, int) else z3.IntVal(pc.discr)
        out.append(Claim('push config present iff configured', (d == 1) == has_push))
        alive = U['sub_topic_alive'](sub)
        tn = g('topic')
        from models_str import Str
        if isinstance(tn, Str):
            out.append(Claim('deleted topic sentinel only when the topic is gone', z3.Not(alive)))
            out.append(Claim('sentinel text', tn.concrete() == b'_deleted_topic_'))
            out.append(Cover('topic deleted'))
        else:
            out.append(Claim('topic name reported only while the topic is alive', alive))
            out.append(Cover('topic alive'))
        return out


def obligations(ctx, cfg):
    obs = [CreateTopic(), CreateSubscription(ctx, abandon=False), Readback(),
           Handler(ctx, 'subscriber', 'get_subscription', req_sub_only('GetSubscriptionRequest')),
           Handler(ctx, 'subscriber', 'delete_subscription', req_sub_only('DeleteSubscriptionRequest')),
           Handler(ctx, 'subscriber', 'acknowledge', req_ack, extra_invalid=bad_ack),
           Handler(ctx, 'subscriber', 'modify_ack_deadline', req_modack, extra_invalid=bad_modack),
           Handler(ctx, 'subscriber', 'pull', req_pull),
           Handler(ctx, 'publisher', 'get_topic', req_sub_only('GetTopicRequest', 'topic'), which='topic'),
           Handler(ctx, 'publisher', 'delete_topic', req_sub_only('DeleteTopicRequest', 'topic'), which='topic'),
           PublishHandler(ctx),
           ]
    # "once a delete has returned, every later request observes it": the subscription actor unregisters the name before it answers,
    # with its topic alive or already gone (the same obligation as C11.c)
    from props.C11 import SubDelete, TopicHandlers
    sd = SubDelete(ctx)
    sd.id = 'C10.d-subscription-delete-unregisters'
    th = TopicHandlers(ctx, 2)
    th.id = 'C10.d-topic-delete-unregisters'
    obs += [sd, th]
    from props.C14 import PushConfigParse
    pc = PushConfigParse()
    pc.id = 'C10.i-push-endpoint'
    obs.append(pc)
    from props.C11 import SubscriberHistory
    sh = SubscriberHistory(ctx)
    sh.id = 'C10.h-history-subscriber-service'
    obs.append(sh)
    # the maps are keyed by the parsed names: names that differ must be different keys (== / Hash / Display agree: C18.c)
    from props.C18 import Distinct
    for kind in ('topic', 'subscription'):
        dn = Distinct(ctx, kind, 4)
        dn.id = 'C10.g-keys-%s' % kind
        obs.append(dn)
    from props.races import TopicNamespaceRace, SubscriptionNamespaceRace
    obs += [TopicNamespaceRace(ctx, ['create', 'create']), TopicNamespaceRace(ctx, ['create', 'delete']), TopicNamespaceRace(ctx, ['create', 'get']),
            SubscriptionNamespaceRace(ctx, ['create', 'create']), SubscriptionNamespaceRace(ctx, ['create', 'delete']),
            SubscriptionNamespaceRace(ctx, ['create', 'get'])]
    if cfg['tier'] == 'thorough':
        obs += [TopicNamespaceRace(ctx, ['create', 'create', 'delete']), TopicNamespaceRace(ctx, ['create', 'delete', 'get']),
                SubscriptionNamespaceRace(ctx, ['create', 'create', 'delete']), SubscriptionNamespaceRace(ctx, ['create', 'delete', 'get'])]
    for o in obs[:2]:
        o.id = o.id.replace('C09.c', 'C10.a-create_topic').replace('C16.a-create_subscription', 'C10.a/b-create_subscription')
    return obs
