"""Symbolic pre-states (every state satisfying the representation invariant I, up to
the slot bounds) and the invariant / reference-model formulas shared by the
actor-level obligations."""
import re
import z3
from values import *
from interp import run_to_end, mk_int, bool_s
from models_coll import Seq, MapM, SetM, select
from models_sync import ArcTok, ArcCell, NotifyM, WeakV, LockM
from models_str import StrTok

NS = 1_000_000_000
U64 = (1 << 64) - 1


def mk(ctx, _ty, _hint='', **fields):
    name, hint = _ty, _hint
    order = ctx.src.struct_fields(name, hint)
    if order is not None and set(fields) < set(order):
        # the source struct has fields this pre-state does not know (added since): they get the value the struct's own
        # argument-less constructor gives them (e.g. an empty cache).  Anything else is exit 2.
        # Only flag-like fields qualify (Option<_> that starts as None, bool): "cold cache" / "not yet" is a state such a field
        # can be in next to any value of the others.  A new collection or counter usually mirrors other fields - a default
        # for it would describe an unreachable state - so that stays exit 2.
        missing = [f for f in order if f not in fields]
        flaglike = all(re.match(r'^(Option\s*<|bool\b|AtomicBool\b|Cell\s*<\s*bool)', ctx.src.field_type(name, f, hint) or '') for f in missing)
        init = _constructed(ctx, name) if flaglike else None
        if init is not None:
            fields = dict(fields)
            for f in missing:
                fields[f] = init.fields[order.index(f)]
    if order is None or set(order) != set(fields):
        raise Unsupported('struct %s: source fields %r, given %r' % (name, order, sorted(fields)))
    return Agg(name, [fields[f] for f in order])


def mk_pointee(ctx, _ty, _hint='', **fields):
    """pointee of a token (an immutable shared object whose fields are functions of the token): a field the source struct has gained
    since is an opaque placeholder - obligations that never look at it are unaffected, a use of it stops that path (exit 2)"""
    order = ctx.src.struct_fields(_ty, _hint)
    if order is not None:
        fields = dict(fields)
        for f in order:
            if f not in fields:
                fields[f] = Opaque('added-field:%s.%s' % (_ty, f))
    return mk(ctx, _ty, _hint, **fields)


def _constructed(ctx, name):
    p = getattr(ctx, 'cur_path', None)
    if p is None:
        return None
    try:
        fn = ctx.fn(name, 'new')
        fn.parse()
        if fn.params:
            return None
        from interp import Interp, run_to_end
        v = run_to_end(Interp(ctx, p).call_fn(fn, []))
        return v if isinstance(v, Agg) and v.name == name else None
    except Exception:
        return None


def mk_single(ctx, _ty, value, _hint=''):
    """a struct with exactly one field (a wrapper around one collection), whatever that private field is called"""
    order = ctx.src.struct_fields(_ty, _hint)
    if order is None or len(order) != 1:
        raise Unsupported('struct %s is not a single-field wrapper any more: %r' % (_ty, order))
    return Agg(_ty, [value])


def fld_single(ctx, v, _ty, _hint=''):
    order = ctx.src.struct_fields(_ty, _hint)
    if order is None or len(order) != 1:
        raise Unsupported('struct %s is not a single-field wrapper any more: %r' % (_ty, order))
    return v.fields[0]


def mk_opt(ctx, _ty, _hint='', **fields):
    """like mk, but fields the source struct does not have (any more) are dropped"""
    order = ctx.src.struct_fields(_ty, _hint)
    if order is None:
        raise Unsupported('struct %s not found' % _ty)
    return mk(ctx, _ty, _hint, **{k: v for k, v in fields.items() if k in order})


def has_field(ctx, name, field, hint=''):
    order = ctx.src.struct_fields(name, hint)
    return order is not None and field in order


def fld(ctx, v, name, field, hint=''):
    order = ctx.src.struct_fields(name, hint)
    return v.fields[order.index(field)]


def ack_id(ctx, t):
    return mk(ctx, 'AckId', value=S(t, 'u64'))


def ack_of(ctx, a):
    return fld(ctx, a, 'AckId', 'value').t


def deadline(ctx, t):
    return mk(ctx, 'AckDeadline', time=S(t, 'Instant'))


def deadline_of(ctx, d):
    return fld(ctx, d, 'AckDeadline', 'time').t


def pulled(ctx, tok, ack, dl, att):
    return mk(ctx, 'PulledMessage', message=ArcTok(tok, 'TopicMessage'), ack_id=ack_id(ctx, ack),
              deadline=deadline(ctx, dl), delivery_attempt=S(att, 'u16'))


class Delivery:
    """the symbolic components of one outstanding delivery"""

    def __init__(self, used, tok, ack, dl, att):
        self.used, self.tok, self.ack, self.dl, self.att = used, tok, ack, dl, att


def pm_parts(ctx, pm):
    """(tok, ack, deadline, attempt) terms of a PulledMessage value"""
    msg = fld(ctx, pm, 'PulledMessage', 'message')
    return (msg.tok, ack_of(ctx, fld(ctx, pm, 'PulledMessage', 'ack_id')),
            deadline_of(ctx, fld(ctx, pm, 'PulledMessage', 'deadline')),
            fld(ctx, pm, 'PulledMessage', 'delivery_attempt').t)


def install_tokens(ctx):
    """pointee of Arc<TopicMessage> tokens: fields are uninterpreted functions of the token"""
    mid = z3.Function('msg_id', z3.IntSort(), z3.IntSort())
    mtime = z3.Function('msg_published_at', z3.IntSort(), z3.IntSort())
    mdata = z3.Function('msg_data', z3.IntSort(), z3.IntSort())
    mattr = z3.Function('msg_attrs', z3.IntSort(), z3.IntSort())

    def topic_message(ip, tok):
        from models_bytes import BytesTok, AttrMapTok
        return mk(ctx, 'TopicMessage', id=mk(ctx, 'MessageId', value=S(mid(tok), 'u64')),
                  published_at=S(mtime(tok), 'SystemTime'), data=BytesTok(mdata(tok)),
                  attributes=Enum('Option', z3.If(mattr(tok) == 0, 0, 1), {1: (AttrMapTok(mattr(tok)),)}))
    ctx.tok_kinds['TopicMessage'] = topic_message
    I = z3.IntSort()
    t_proj, t_id, t_iid = z3.Function('topic_proj', I, I), z3.Function('topic_id', I, I), z3.Function('topic_iid', I, I)
    s_proj, s_id, s_iid = z3.Function('sub_proj', I, I), z3.Function('sub_id', I, I), z3.Function('sub_iid', I, I)
    s_topic, s_topic_alive = z3.Function('sub_topic', I, I), z3.Function('sub_topic_alive', I, z3.BoolSort())

    def topic(ip, tok):
        from models_async import SenderM
        ip.path.assume(z3.And(t_iid(tok) >= 0, t_iid(tok) < (1 << 32)))
        return mk_pointee(ctx, 'Topic', 'topics/topic', name=mk(ctx, 'TopicName', project_id=StrTok(t_proj(tok)), topic_id=StrTok(t_id(tok))),
                  internal_id=S(t_iid(tok), 'u32'), sender=SenderM('topic', tok))

    def subscription(ip, tok):
        from models_async import SenderM
        ip.path.assume(z3.And(s_iid(tok) >= 0, s_iid(tok) < (1 << 32)))
        return mk_pointee(ctx, 'Subscription', 'subscriptions/subscription',
                  name=mk(ctx, 'SubscriptionName', project_id=StrTok(s_proj(tok)), subscription_id=StrTok(s_id(tok))),
                  topic=WeakV(ArcTok(s_topic(tok), 'Topic'), s_topic_alive(tok)), internal_id=S(s_iid(tok), 'u32'),
                  sender=SenderM('subscription', tok),
                  observer=ArcCell(Cell(mk(ctx, 'SubscriptionObserver', notify_messages_available=NotifyM('messages_available'),
                                           deleted_recv=__import__('models_async').Leaf('deleted', tok), deleted_send=Opaque('deleted_send')), 'observer')))
    ctx.tok_kinds['Topic'] = topic
    ctx.tok_kinds['Subscription'] = subscription
    ctx.tok_ufs = {'topic_proj': t_proj, 'topic_id': t_id, 'topic_iid': t_iid,
                   'sub_proj': s_proj, 'sub_id': s_id, 'sub_iid': s_iid, 'sub_topic': s_topic, 'sub_topic_alive': s_topic_alive}


def sym_tracker(ctx, p, n_slots, name='o', now_floor=None):
    """OutstandingMessageTracker in an arbitrary state satisfying I1/I2 with <= n_slots deliveries.
    Returns (tracker value, [Delivery])"""
    ds = []
    for i in range(n_slots):
        u = p.fresh('%s%d_used' % (name, i), 'bool')
        tok = p.fresh('%s%d_tok' % (name, i))
        ack = p.fresh('%s%d_ack' % (name, i))
        dl = p.fresh('%s%d_dl' % (name, i))
        att = p.fresh('%s%d_att' % (name, i))
        p.assume(z3.And(ack >= 0, ack <= U64, att >= 0, att < 65536, dl >= z3.Int('EPOCH'), z3.Int('EPOCH') >= 0))
        # deadlines are produced by AckDeadline::new: whole microseconds after EPOCH
        p.assume((dl - z3.Int('EPOCH')) % 1000 == 0)
        ds.append(Delivery(u, tok, ack, dl, att))
    for i in range(n_slots):
        for j in range(i + 1, n_slots):
            p.assume(z3.Implies(z3.And(ds[i].used, ds[j].used),
                                z3.And(ds[i].ack != ds[j].ack, ds[i].tok != ds[j].tok)))
    messages = MapM([(d.used, ack_id(ctx, d.ack), pulled(ctx, d.tok, d.ack, d.dl, d.att)) for d in ds])
    expirations = SetM([(d.used, Agg(None, [deadline(ctx, d.dl), ack_id(ctx, d.ack)])) for d in ds])
    tr = mk(ctx, 'OutstandingMessageTracker', messages=messages, expirations=expirations,
            notify=NotifyM('tracker'))
    return tr, ds


def tracker_parts(ctx, tr):
    return (fld(ctx, tr, 'OutstandingMessageTracker', 'messages'),
            fld(ctx, tr, 'OutstandingMessageTracker', 'expirations'))


def tracker_invariant(ctx, tr):
    """I1 /\\ I2 /\\ well-formedness of a tracker value (quantifier-free over slots)"""
    m, s = tracker_parts(ctx, tr)
    conj = [m.wf(), s.wf()]
    for u, k, v in m.slots:
        tok, ack, dl, att = pm_parts(ctx, v)
        conj.append(z3.Implies(u, z3.And(ack == ack_of(ctx, k),
                                         s.contains(Agg(None, [deadline(ctx, dl), ack_id(ctx, ack)])))))
    for u, e in s.slots:
        d, a = e.fields
        f = m.found(a)
        if m.slots:
            v = m.lookup(a)
            conj.append(z3.Implies(u, z3.And(f, pm_parts(ctx, v)[2] == deadline_of(ctx, d))))
        else:
            conj.append(z3.Not(u))
    conj.append(m.count() == s.count())
    return z3.And(conj)


def tracker_has(ctx, tr, d, dl=None):
    """delivery d (by ack id) is tracked with exactly its components (deadline possibly replaced)"""
    m, s = tracker_parts(ctx, tr)
    want_dl = d.dl if dl is None else dl
    if not m.slots:
        return z3.BoolVal(False)
    v = m.lookup(ack_id(ctx, d.ack))
    tok, ack, vdl, att = pm_parts(ctx, v)
    return z3.And(m.found(ack_id(ctx, d.ack)), tok == d.tok, ack == d.ack, vdl == want_dl, att == d.att,
                  s.contains(Agg(None, [deadline(ctx, want_dl), ack_id(ctx, d.ack)])))


def tracker_lacks(ctx, tr, d, also_dl=None):
    m, s = tracker_parts(ctx, tr)
    c = [z3.Not(m.found(ack_id(ctx, d.ack))),
         z3.Not(s.contains(Agg(None, [deadline(ctx, d.dl), ack_id(ctx, d.ack)])))]
    return z3.And(c)


def sym_backlog(ctx, p, n_slots, name='b'):
    toks = [p.fresh('%s%d_tok' % (name, i)) for i in range(n_slots)]
    n = p.fresh(name + '_len')
    p.assume(z3.And(n >= 0, n <= n_slots))
    for i in range(n_slots):
        for j in range(i + 1, n_slots):
            p.assume(z3.Implies(n > j, toks[i] != toks[j]))
    seq = Seq([ArcTok(t, 'TopicMessage') for t in toks], n, 'deque')
    return mk(ctx, 'Messages', list=seq), toks, n


def sym_name(ctx, p, kind, name):
    """SubscriptionName / TopicName with opaque strings"""
    a, b = p.fresh(name + '_proj'), p.fresh(name + '_id')
    if kind == 'SubscriptionName':
        return mk(ctx, kind, project_id=StrTok(a), subscription_id=StrTok(b))
    return mk(ctx, kind, project_id=StrTok(a), topic_id=StrTok(b))


class ActorState:
    pass


def sym_actor(ctx, p, n_out, n_back, deleted=None, ack_deadline=None):
    """SubscriptionActor in an arbitrary state satisfying I1-I6 within the slot bounds"""
    st = ActorState()
    tr, ds = sym_tracker(ctx, p, n_out)
    backlog, btoks, blen = sym_backlog(ctx, p, n_back)
    nxt = p.fresh('next_ack_id')
    p.assume(z3.And(nxt >= 1, nxt < (1 << 63)))
    for d in ds:
        p.assume(z3.Implies(d.used, z3.And(d.ack < nxt, d.ack >= 1)))      # I3
        for i, t in enumerate(btoks):
            p.assume(z3.Implies(z3.And(d.used, blen > i), d.tok != t))      # I4
    dele = p.fresh('deleted', 'bool') if deleted is None else z3.BoolVal(deleted)
    p.assume(z3.Implies(dele, z3.And(blen == 0, z3.And([z3.Not(d.used) for d in ds] or [True]))))  # I6
    ackdl = p.fresh('ack_deadline_s') if ack_deadline is None else ack_deadline
    p.assume(z3.And(ackdl >= 10, ackdl < (1 << 31)))
    name = sym_name(ctx, p, 'SubscriptionName', 'sub')
    info = mk(ctx, 'SubscriptionInfo', name=name, ack_deadline=S(ackdl * NS, 'Duration'),
              push_config=Enum('Option', 0, {}))
    from models_async import Leaf, OneshotTx
    from models_sync import LockM
    p.counter += 1
    st.deleted_cid = p.counter
    # the one-shot behind the deletion signal is still armed iff the subscription was not deleted yet
    send_slot = Enum('Option', z3.If(dele, 0, 1), {1: (OneshotTx(st.deleted_cid),)})
    observer = ArcCell(Cell(mk(ctx, 'SubscriptionObserver', notify_messages_available=NotifyM('messages_available'),
                                deleted_recv=Leaf('deleted', st.deleted_cid),
                                deleted_send=LockM('observer.deleted_send', Cell(send_slot, 'deleted_send'))), 'observer'))
    topic_alive = p.fresh('topic_alive', 'bool')
    topic_tok = p.fresh('topic_tok')
    # manager entry and push-registry entry of this subscription (present unless already deleted)
    self_tok = p.fresh('self_tok')
    other_u, other_tok = p.fresh('other_sub_used', 'bool'), p.fresh('other_sub_tok')
    oname = sym_name(ctx, p, 'SubscriptionName', 'other')
    p.assume(z3.Not(eq_val(oname, name)))
    reg_used = p.fresh('registered', 'bool')
    p.assume(z3.Implies(z3.Not(dele), reg_used))
    p.assume(z3.Implies(dele, z3.Not(reg_used)))     # I6': a deleted subscription is no longer registered (established by delete, C11.c)
    mstate = Cell(mk(ctx, 'State', 'subscriptions/subscription_manager',
                     subscriptions=MapM([(reg_used, name, ArcTok(self_tok, 'Subscription')), (other_u, oname, ArcTok(other_tok, 'Subscription'))]),
                     next_id=S(p.fresh('mgr_next_id'), 'u32')), 'mgr-state')
    delegate = mk(ctx, 'SubscriptionManagerDelegate', state=ArcCell(Cell(LockM('subscription_manager.state', mstate))))
    push_used = p.fresh('push_registered', 'bool')
    p.assume(z3.Implies(dele, z3.Not(push_used)))
    pstate = Cell(mk_single(ctx, 'PushSubscriptionsRegistryState', MapM([(push_used, name, Opaque('push-config')), (p.fresh('other_push', 'bool'), oname, Opaque('push-config-other'))])),
                  'push-state')
    registry = mk(ctx, 'PushSubscriptionsRegistry', state=ArcCell(Cell(LockM('push_registry.state', pstate))))
    st.mstate, st.pstate, st.name, st.oname, st.other_u, st.reg_used, st.push_used = mstate, pstate, name, oname, other_u, reg_used, push_used
    st.topic_alive, st.topic_tok = topic_alive, topic_tok
    actor = mk(ctx, 'SubscriptionActor', internal_id=S(p.fresh('internal_id'), 'u32'),
               topic=WeakV(ArcTok(topic_tok, 'Topic'), topic_alive), info=info, backlog=backlog, outstanding=tr,
               observer=observer, push_registry=registry, delegate=delegate,
               next_ack_id=ack_id(ctx, nxt), deleted=S(dele, 'bool'))
    st.actor = actor
    st.ds, st.btoks, st.blen, st.next, st.deleted, st.ackdl = ds, btoks, blen, nxt, dele, ackdl
    st.cell = Cell(actor, 'actor')
    return st


def actor_fields(ctx, actor):
    g = lambda f: fld(ctx, actor, 'SubscriptionActor', f)
    backlog = fld(ctx, g('backlog'), 'Messages', 'list')
    return {'backlog': backlog, 'outstanding': g('outstanding'), 'next': ack_of(ctx, g('next_ack_id')),
            'deleted': g('deleted').t, 'info': g('info')}


def seq_tok(seq, i):
    """token term of element i of a Seq of ArcTok"""
    e = select(seq.elems, z3.IntVal(i) if isinstance(i, int) else i)
    return e.tok


def returns_covers(ret, upto=None):
    """vacuity covers 'returns k': the length of a returned sequence is a python int on paths that fork on it and a term when the
    code computes it without forking (e.g. filter_map + collect) - cover each possible value in that case"""
    from framework import Cover
    k = ret.cn()
    if k is not None:
        return [Cover('returns %d' % k)]
    n = len(ret.elems) if upto is None else upto
    return [Cover('returns %d' % j, ret.n == j) for j in range(n + 1)]
