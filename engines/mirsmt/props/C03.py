"""C03 - a delivered message is exclusively leased until its deadline; fresh ack IDs."""
from props.actor_steps import *

OUTSIDE = ['competing consumers are serialised by the actor mailbox (A1): two pulls are two steps',
           'next_ack_id >= 2^63 (AckId::next overflows at 2^64: panic in dev, wrap in release)']
ASSUMPTIONS = ['A1: one request at a time per subscription actor, in mailbox order (tokio mpsc + select! glue trusted)']


def obligations(ctx, cfg):
    q = cfg['tier'] == 'quick'
    no, nb, k = (3, 3, 2) if q else (4, 4, 3)
    return [StepPull(ctx, no, nb, 0, 'lease', 'C03.a/b-pull'),
            StepPost(ctx, 2, 2, 2, 'lease', 'C03.c-post'),
            StepAck(ctx, no, 2, k, 'lease', 'C03.c-ack'),
            StepModify(ctx, no, 2, k, 'lease', 'C03.c-modify'),
            StepExpire(ctx, no, 2, 0, 'lease', 'C03.c-expire'),
            # the lease of a delivery whose consumer went away before the answer: still exactly one place per message
            ReceiveDropped(ctx, 'PullMessages', id_='C03.d-pull-consumer-gone'),
            SubscriptionActorHistory(ctx, 'C03.e-history-subscription-actor')] + _lease_extension(ctx)


def _lease_extension(ctx):
    # a lease extended by ModifyAckDeadline lasts as long as was asked for (capped at 600 s): a shorter one hands the
    # message to another consumer while the first still holds it
    from props.C05 import C05a, ParseModifications
    a, b = C05a(ctx), ParseModifications(ctx, 2)
    a.id, b.id = 'C03.f-extension-duration', 'C03.f-parse-modifications'
    # ... counted from the moment the request was received (a base instant taken earlier shortens the lease by the age of the stream)
    from props.C05 import HandlerBaseInstant
    c, d = HandlerBaseInstant(ctx, False), HandlerBaseInstant(ctx, True)
    c.id, d.id = 'C03.g-extension-base-instant-unary', 'C03.g-extension-base-instant-streaming'
    return [a, b, c, d]


def kani_harnesses(cfg):
    q = cfg['tier'] == 'quick'
    hs = [{'id': 'K4-ack-id-next', 'harness': 'k4_ack_id_next', 'desc': 'AckId::next on the compiled code, all u64 below MAX'}]
    return [h for h in hs if not q or h.get('quick')]
