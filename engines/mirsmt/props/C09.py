"""C09 - messages are delivered intact with a stable, globally unique identity."""
import z3
from framework import Obligation, Claim, Cover, model_value
from values import *
from interp import run_to_end
from models_coll import Seq, MapM
from models_sync import ArcTok, ArcCell, LockM
from models_bytes import BytesTok, AttrMapTok
from models_str import StrTok
from props.common import *
from props.service import proto
from props.C08 import PublishStep, MessageIdNew

OUTSIDE = ['byte-level behaviour of Bytes, prost, base64, serde_json (opaque, injective where the contract says so)',
           '"large" payloads only in the sense that the size of an opaque value is unconstrained']
ASSUMPTIONS = ['payload bytes and attribute maps are opaque tokens: equal tokens <=> equal contents']


class ParseAndMap(Obligation):
    id = 'C09.a'
    desc = 'parse_topic_message then map_to_received_message: delivered data and attributes equal the published ones; message id / ack id rendered from the stored values; publish time is the stored one'
    bounds = {'payload': 'opaque (any size/content)', 'attributes': 'opaque map, empty or not'}

    def body(self, ip, p):
        ctx = ip.ctx
        install_tokens(ctx)
        d, a = p.fresh('data'), p.fresh('attrs')
        msg = proto(ctx, 'PubsubMessage', data=BytesTok(d), attributes=AttrMapTok(a))
        tm = run_to_end(ip.call_fn(ctx.free_fn('parse_topic_message'), [Ref(Loc(Cell(msg)))]))
        # the topic actor stamps id and time, wraps in an Arc; a subscription hands it out
        mid, t, ack = p.fresh('mid'), p.fresh('pubtime'), p.fresh('ack')
        p.assume(z3.And(mid >= 0, mid < (1 << 64), ack >= 0, ack < (1 << 64)))
        cell = Cell(tm, 'tm')
        run_to_end(ip.call_fn(ctx.fn('TopicMessage', 'publish'), [Ref(Loc(cell), True), mk(ctx, 'MessageId', value=S(mid, 'u64')), S(t, 'SystemTime')]))
        pm = mk(ctx, 'PulledMessage', message=ArcCell(cell), ack_id=ack_id(ctx, ack), deadline=deadline(ctx, z3.Int('EPOCH')), delivery_attempt=S(z3.IntVal(1), 'u16'))
        rm = run_to_end(ip.call_fn(ctx.free_fn('map_to_received_message'), [Ref(Loc(Cell(pm)))]))
        return d, a, mid, t, ack, rm

    def post(self, ip, p, res):
        ctx = ip.ctx
        d, a, mid, t, ack, rm = res
        order = ctx.src.struct_fields('ReceivedMessage', 'pubsub_proto_generated')
        g = lambda f: rm.fields[order.index(f)]
        pm_order = ctx.src.struct_fields('PubsubMessage', 'pubsub_proto_generated')
        inner = g('message')
        out = [Claim('message present', inner.discr == 1)]
        pmv = inner.payload[1][0]
        h = lambda f: pmv.fields[pm_order.index(f)]
        fmt_int = z3.Function('fmt_int', z3.IntSort(), z3.IntSort())
        out.append(Claim('data intact', h('data').tok == d))
        out.append(Claim('attributes intact (empty map when none were published)', h('attributes').tok == z3.If(AttrMapTok(a).count() == 0, 0, a)))
        out.append(Claim('message id is the stamped id', h('message_id').tok == fmt_int(mid)))
        out.append(Claim('ack id is the delivery\'s ack id', g('ack_id').tok == fmt_int(ack)))
        pt = h('publish_time')
        out.append(Claim('publish time is the stamped one', pt.discr == 1 and pt.payload[1][0].fields[0].t is not None and z3.simplify(pt.payload[1][0].fields[0].t == t)))
        out.append(Cover('with attributes', a != 0))
        out.append(Cover('without attributes', a == 0))
        return out


class CreateTopic(Obligation):
    id = 'C09.c'
    desc = 'TopicManager::State::create_topic: absent name -> new topic with internal_id = next_id + 1 (greater than every id in use), next_id advanced; present -> AlreadyExists, state unchanged; delegate.delete never touches next_id'
    bounds = {'existing_topics': 2, 'next_id': '< 2^31'}

    def body(self, ip, p):
        ctx = ip.ctx
        install_tokens(ctx)
        U = ctx.tok_ufs
        ents = [(p.fresh('t%d_used' % i, 'bool'), p.fresh('t%d_tok' % i)) for i in range(2)]
        p.assume(z3.Implies(z3.And(ents[0][0], ents[1][0]),
                            z3.Or(U['topic_proj'](ents[0][1]) != U['topic_proj'](ents[1][1]), U['topic_id'](ents[0][1]) != U['topic_id'](ents[1][1]))))
        nid = p.fresh('next_id')
        p.assume(z3.And(nid >= 1, nid < (1 << 31)))
        for u, t in ents:
            p.assume(z3.Implies(u, U['topic_iid'](t) <= nid))        # manager invariant: ids in use never exceed next_id
        mp = MapM([(u, mk(ctx, 'TopicName', project_id=StrTok(U['topic_proj'](t)), topic_id=StrTok(U['topic_id'](t))), ArcTok(t, 'Topic')) for u, t in ents])
        state = Cell(mk_opt(ctx, 'State', 'topics/topic_manager', topics=mp, next_id=S(nid, 'u32')), 'state')
        name = sym_name(ctx, p, 'TopicName', 'new')
        which = p.choose(2, 'op')
        if which == 0:
            delegate = mk(ctx, 'TopicManagerDelegate', state=ArcCell(Cell(LockM('topic_manager.state', state))))
            r = run_to_end(ip.call_fn(ctx.fn('State', 'create_topic', hint='topic_manager'), [Ref(Loc(state), True), name, delegate]))
        else:
            delegate = mk(ctx, 'TopicManagerDelegate', state=ArcCell(Cell(LockM('topic_manager.state', state))))
            r = run_to_end(ip.call_fn(ctx.fn('TopicManagerDelegate', 'delete'), [Ref(Loc(Cell(delegate))), Ref(Loc(Cell(name)))]))
        return {'which': which, 'ents': ents, 'nid': nid, 'name': name, 'state': state, 'ret': r, 'log': list(p.log)}

    def post(self, ip, p, res):
        ctx = ip.ctx
        U = ctx.tok_ufs
        st2 = res['state'].v
        tm = fld(ctx, st2, 'State', 'topics', 'topics/topic_manager')
        nid2 = fld(ctx, st2, 'State', 'next_id', 'topics/topic_manager').t
        ents, nid, name = res['ents'], res['nid'], res['name']
        name_of = lambda t: mk(ctx, 'TopicName', project_id=StrTok(U['topic_proj'](t)), topic_id=StrTok(U['topic_id'](t)))
        exists = z3.Or([z3.And(u, eq_val(name_of(t), name)) for u, t in ents])
        out = []
        if res['which'] == 1:
            out.append(Claim('delete never lowers next_id (ids are never reused)', nid2 >= nid))
            out.append(Claim('delete removes exactly that name', z3.And([z3.Not(tm.found(name))] +
                             [z3.Implies(z3.And(u, z3.Not(eq_val(name_of(t), name))), tm.found(name_of(t))) for u, t in ents])))
            out.append(Cover('delete existing', exists))
            return out
        r = res['ret']
        if r.discr == 0:
            topic = r.payload[0][0]
            tv = read_loc(topic.deref_loc(ip))
            iid = fld(ctx, tv, 'Topic', 'internal_id', 'topics/topic').t
            out.append(Claim('created only when the name was absent', z3.Not(exists)))
            out.append(Claim('new internal id is above every id issued so far (> next_id), hence above every id in use', z3.And(iid > nid, z3.And([z3.Implies(u, U['topic_iid'](t) < iid) for u, t in ents]))))
            out.append(Claim('next_id covers the new id (ids are never reused)', z3.And(nid2 >= iid, nid2 < (1 << 32))))
            out.append(Claim('registered under its name', tm.found(name)))
            out.append(Claim('topic carries the requested name', eq_val(fld(ctx, tv, 'Topic', 'name', 'topics/topic'), name)))
            out.append(Claim('others untouched', z3.And([z3.Implies(u, z3.And(tm.found(name_of(t)), tm.lookup(name_of(t)).tok == t)) for u, t in ents])))
            out.append(Cover('create next to an existing topic', ents[0][0]))
        else:
            ev = ip.src.enum_variants('CreateTopicError')
            out.append(Claim('error is AlreadyExists, only when the name is taken', z3.And(exists, z3.BoolVal(ev[r.payload[1][0].discr][0] == 'AlreadyExists'))))
            out.append(Claim('nothing registered or removed; next_id not lowered', z3.And(nid2 >= nid, tm.count() == z3.Sum([z3.If(u, 1, 0) for u, _ in ents]))))
            out.append(Claim('no actor started', not any(e[0] == 'spawn' for e in res['log'])))
            out.append(Cover('already exists'))
        return out


class PushPayloadOb(Obligation):
    id = 'C09.d'
    desc = 'push payload: subscription name, base64 of the data, message id (both spellings) and the published attributes'
    bounds = {'payload': 'opaque', 'attributes': 'opaque, empty or not'}

    def body(self, ip, p):
        ctx = ip.ctx
        install_tokens(ctx)
        sub, msg = p.fresh('sub_tok'), p.fresh('msg_tok')
        fn = ctx.free_fn('encode_message_payload')
        fn.parse()
        args = []
        for _, ty in fn.params:       # arguments by parameter type: &Arc<X> or &X, in whatever order
            kind = 'Subscription' if 'Subscription' in ty else ('TopicMessage' if 'TopicMessage' in ty else None)
            if kind is None:
                raise Unsupported('encode_message_payload takes a %s' % ty)
            tok = sub if kind == 'Subscription' else msg
            args.append(Ref(Loc(Cell(ArcTok(tok, kind) if 'Arc<' in ty else ctx.tok_kinds[kind](ip, tok)))))
        run_to_end(ip.call_fn(fn, args))
        ser = [e for e in p.log if e[0] == 'serde_json::to_string']
        return sub, msg, ser

    def post(self, ip, p, res):
        ctx = ip.ctx
        sub, msg, ser = res
        out = [Claim('exactly one JSON document is produced', len(ser) == 1)]
        pl = ser[0][1]
        pmsg = fld(ctx, pl, 'PushPayload', 'message')
        g = lambda f: fld(ctx, pmsg, 'PushPayloadMessage', f)
        mid = z3.Function('msg_id', z3.IntSort(), z3.IntSort())(msg)
        mdata = z3.Function('msg_data', z3.IntSort(), z3.IntSort())(msg)
        mattr = z3.Function('msg_attrs', z3.IntSort(), z3.IntSort())(msg)
        fmt_int = z3.Function('fmt_int', z3.IntSort(), z3.IntSort())
        b64 = z3.Function('b64_STANDARD_enc_bytes', z3.IntSort(), z3.IntSort())
        U = ctx.tok_ufs
        subname = run_to_end(__import__('models_str').display_to_str(ip, mk(ctx, 'SubscriptionName', project_id=StrTok(U['sub_proj'](sub)), subscription_id=StrTok(U['sub_id'](sub)))))
        out.append(Claim('names the subscription', fld(ctx, pl, 'PushPayload', 'subscription').tok == subname.tok))
        out.append(Claim('data is the standard base64 of the published bytes', g('data').tok == b64(mdata)))
        out.append(Claim('message_id and messageId carry the published id', z3.And(g('message_id').tok == fmt_int(mid), g('message_id_dupe').tok == fmt_int(mid))))
        c = Claim('attributes are the published attributes', g('attributes').tok == mattr)
        out.append(c)
        out.append(Cover('message with attributes', mattr != 0))
        return out


def obligations(ctx, cfg):
    q = cfg['tier'] == 'quick'
    from props.C14 import PullAndDispatch
    pd = PullAndDispatch(ctx, 2)
    pd.id = 'C09.e-push-round-payloads'
    pd.budget = 0
    pd.no_timers = True
    return [ParseAndMap(), PublishStep(ctx, 1 if q else 2, 2 if q else 3, id_='C09.b'), MessageIdNew(), CreateTopic(), PushPayloadOb(), pd]


def native_replay(ob_id, v):
    if ob_id == 'C09.d' and v['label'] == 'attributes are the published attributes':
        return {'judge': 'push_attributes', 'scenario': 'push_attributes'}
    return None
