"""C08 - publish order is delivery order; message IDs are issued in order."""
import z3
from framework import Obligation, Claim, Cover, model_value, run_async, find_values
from values import *
from interp import run_to_end
from models_coll import Seq, MapM
from models_core import ok, err
from models_sync import ArcTok, ArcCell, LockM
from models_bytes import BytesTok, AttrMapTok
from props.common import *
from props.actor_steps import StepPost, StepPull, StepModify, StepExpire
from props.C11 import sym_topic_actor, ta_fields
from props.C16 import default_reply

OUTSIDE = ['that posts reach every subscription in publish order rests on A1/A2 (one publish at a time, awaited; FIFO mailboxes)',
           'next_message_id >= 2^31 (after 2^32 publishes on one topic the counter overflows)']
ASSUMPTIONS = ['A1/A2: actor mailboxes are FIFO and handled one request at a time']


def sym_topic_message(ctx, p, i):
    d, a = p.fresh('msg%d_data' % i), p.fresh('msg%d_attrs' % i)
    return mk(ctx, 'TopicMessage', id=mk(ctx, 'MessageId', value=S(z3.IntVal(0), 'u64')), published_at=S(z3.IntVal(0), 'SystemTime'),
              data=BytesTok(d), attributes=Enum('Option', z3.If(a == 0, 0, 1), {1: (AttrMapTok(a),)})), d, a


class PublishStep(Obligation):
    tier = 'T3'

    def __init__(self, ctx, n_subs, k, id_='C08.a/b', want=('ids', 'fanout', 'intact')):
        self.n, self.k, self.want = n_subs, k, set(want)
        self.id = id_
        self.desc = 'TopicActor::publish_messages: message i gets MessageId(topic, next+1+i), one per message in order; every attached subscription is posted the whole batch in request order; Ok(ids) only after every post completed'
        self.bounds = {'attached_subscriptions': n_subs, 'batch': k, 'next_message_id': '< 2^31'}
        self.unroll = max(n_subs, k) + 3
        self.max_paths = 20000
        install_tokens(ctx)

    def body(self, ip, p):
        ctx = ip.ctx
        ctx.on_enqueue = default_reply
        cell, ents, dele, mstate, own, oname, other_u, reg = sym_topic_actor(ctx, p, self.n, deleted=False)
        msgs, datas = [], []
        for i in range(self.k):
            m, d, a = sym_topic_message(ctx, p, i)
            msgs.append(m)
            datas.append((d, a))
        n = p.fresh('batch_len')
        p.assume(z3.And(n >= 0, n <= self.k))
        pre = ta_fields(ctx, cell.v)
        tid = fld(ctx, cell.v, 'TopicActor', 'topic_internal_id').t
        fn = ctx.fn('TopicActor', 'publish_messages')
        coro = run_to_end(ip.call_fn(fn, [Ref(Loc(cell), True), Seq(msgs, n, 'vec')]))
        p.allow_closed = 'closed' in self.want
        res, k = run_async(ip, p, coro, budget=1 if 'pending' in self.want else 0)
        return {'cell': cell, 'ents': ents, 'n': n, 'datas': datas, 'pre_next': pre['next'], 'tid': tid, 'ret': res, 'log': list(p.log)}

    def post(self, ip, p, res):
        ctx = ip.ctx
        n, ents = res['n'], res['ents']
        f = ta_fields(ctx, res['cell'].v)
        log = res['log']
        enq = [e for e in log if e[0] == 'enqueue']
        out = []
        nattached = z3.Sum([z3.If(u, 1, 0) for u, _ in ents] or [z3.IntVal(0)])
        closed = any(e[0] == 'send-closed' for e in log)
        r = res['ret']
        if r.discr == 0:
            ids = fld(ctx, r.payload[0][0], 'PublishMessagesResponse', 'message_ids')
            out.append(Claim('one id per message', ids.n == n))
            for i in range(len(ids.elems)):
                v = fld(ctx, ids.elems[i], 'MessageId', 'value').t
                out.append(Claim('id[%d] == topic_id * 2^32 + (next + 1 + %d)' % (i, i),
                                 z3.Implies(n > i, v == res['tid'] * (1 << 32) + res['pre_next'] + 1 + i)))
            out.append(Claim('counter advanced by the batch length', f['next'] == res['pre_next'] + n))
            out.append(Claim('Ok only if no post failed', not closed))
            out.append(Claim('one post per attached subscription', len(enq) == nattached))
            out.append(Claim('every post is joined before Ok', sum(1 for e in log if e[0] == 'task-joined') == len(enq)))
            # each post: addressed to a distinct attached subscription, carrying the whole batch in order
            toks = []
            for e in enq:
                req = e[3]
                ev = ip.src.enum_variants('SubscriptionRequest')
                out.append(Claim('post request kind', e[1] == 'subscription' and ev[req.discr][0] == 'PostMessages'))
                out.append(Claim('posted to an attached subscription', z3.Or([z3.And(u, t == e[2]) for u, t in ents] or [False])))
                toks.append(e[2])
                batch = req.payload[req.discr][0]
                out.append(Claim('whole batch posted', batch.n == n))
                for i, m in enumerate(batch.elems):
                    tm = read_loc(m.deref_loc(ip))
                    mid = fld(ctx, fld(ctx, tm, 'TopicMessage', 'id'), 'MessageId', 'value').t
                    d, a = res['datas'][i] if i < len(res['datas']) else (None, None)
                    if d is None:
                        continue
                    data = fld(ctx, tm, 'TopicMessage', 'data')
                    attrs = fld(ctx, tm, 'TopicMessage', 'attributes')
                    ad = attrs.discr if not isinstance(attrs.discr, int) else z3.IntVal(attrs.discr)
                    out.append(Claim('posted[%d] is request message %d with the id returned for it, data and attributes intact' % (i, i),
                                     z3.Implies(n > i, z3.And(mid == res['tid'] * (1 << 32) + res['pre_next'] + 1 + i, data.tok == d,
                                                              (ad == 1) == (a != 0),
                                                              z3.Implies(a != 0, attrs.payload[1][0].tok == a) if 1 in attrs.payload else True))))
                    out.append(Claim('publish time set once for the batch', fld(ctx, tm, 'TopicMessage', 'published_at').t == [x for x in log if x[0] == 'systime'][0][1]))
            for i in range(len(toks)):
                for j in range(i + 1, len(toks)):
                    out.append(Claim('no subscription posted twice', toks[i] != toks[j]))
            out.append(Cover('publish to %d subscriptions' % len(enq)))
            out.append(Cover('full batch', n == self.k))
        else:
            out.append(Claim('Err only when a post failed (subscription mailbox closed)', closed))
            out.append(Cover('publish fails'))
        return out

    def model_info(self, p, m, res):
        return {'batch_len': model_value(m, res['n']), 'next_message_id': model_value(m, res['pre_next']), 'topic_id': model_value(m, res['tid'])} if res else {}


class MessageIdNew(Obligation):
    id = 'C08.a-id'
    desc = 'MessageId::new(a, b).value == a * 2^32 + b for all u32 (so ids of one topic increase strictly with the counter and never collide across topics)'
    bounds = {'a, b': 'all u32'}

    def body(self, ip, p):
        a, b = p.fresh('a'), p.fresh('b')
        p.assume(z3.And(a >= 0, a < (1 << 32), b >= 0, b < (1 << 32)))
        r = run_to_end(ip.call_fn(ip.ctx.fn('MessageId', 'new'), [S(a, 'u32'), S(b, 'u32')]))
        return a, b, r

    def post(self, ip, p, res):
        a, b, r = res
        return [Claim('value', fld(ip.ctx, r, 'MessageId', 'value').t == a * (1 << 32) + b), Cover('reachable')]


def obligations(ctx, cfg):
    q = cfg['tier'] == 'quick'
    ns, k = (2, 2) if q else (3, 4)
    return [MessageIdNew(), PublishStep(ctx, ns, k),
            StepPost(ctx, 1, 3 if q else 4, k, 'fifo', 'C08.c-post'),
            StepPull(ctx, 1, 3 if q else 4, 0, 'fifo', 'C08.c-pull'),
            StepModify(ctx, 2, 2, 2, 'fifo', 'C08.c-nack'),
            StepExpire(ctx, 2, 2, 0, 'deadline', 'C08.c-expire')] + _publish_handler(ctx)


def _publish_handler(ctx):
    from props.C10 import PublishHandler
    ph = PublishHandler(ctx)
    ph.id = 'C08.d-publish-handler'
    from props.actor_steps import SubscriptionActorHistory
    return [ph, SubscriptionActorHistory(ctx, 'C08.e-history-subscription-actor')]


def kani_harnesses(cfg):
    q = cfg['tier'] == 'quick'
    hs = [{'id': 'K4-message-id', 'harness': 'k4_message_id_new', 'quick': True, 'desc': 'MessageId::new on the compiled code: value == a*2^32+b and injective, all u32 x u32'}]
    return [h for h in hs if not q or h.get('quick')]


_obligations_c08b = obligations


def obligations(ctx, cfg):
    # the topic actor as its own constructor starts it (attach order = creation order is what the fan-out iterates)
    from props.C11 import TopicActorHistory
    th = TopicActorHistory(ctx)
    th.id = 'C08.f-history-topic-actor'
    return _obligations_c08b(ctx, cfg) + [th]


class PublishOnce(Obligation):
    """structural, beyond the batch-size bound of the handler obligation: the Publish handler hands its batch to the topic at one call site that is
    not inside a loop, so a request of any size reaches the topic as one PublishMessages request (which is what keeps its messages contiguous)"""
    id = 'C08.g-publish-hands-over-once'
    desc = ('control-flow graph of the Publish handler coroutine (MIR): Topic::publish_messages is called at exactly one site and that site lies on no cycle '
            '(the poll loop of the await does not contain the call that creates the future): one Publish request of any size = one PublishMessages request')
    bounds = {'request size': 'any (structural)', 'scope': 'the handler coroutine itself; if the call lives in a helper the obligation is inconclusive'}

    def body(self, ip, p):
        dump = ip.ctx.dump
        fns = [f for n, f in dump.functions.items() if re.search(r'publisher::.*::publish::\{closure#0\}$', n)]
        if len(fns) != 1:
            raise Unsupported('Publish handler coroutine not found (%d candidates)' % len(fns))
        fn = fns[0].parse() or fns[0]
        succ = {}
        sites = []
        for bb, (stmts, term) in fn.blocks.items():
            if bb in fn.cleanup or term is None:
                continue
            out = set()
            for m in re.finditer(r'bb(\d+)', term.text or ''):
                if 'unwind' not in (term.text or '')[max(0, m.start() - 8):m.start()]:
                    out.add(int(m.group(1)))
            succ[bb] = {b for b in out if b not in fn.cleanup}
            if term.kind == 'call' and re.fullmatch(r'[\w:]*\bpublish_messages', str(term.callee).strip()):
                sites.append(bb)

        def on_cycle(b):
            seen, todo = set(), list(succ.get(b, ()))
            while todo:
                x = todo.pop()
                if x == b:
                    return True
                if x in seen:
                    continue
                seen.add(x)
                todo.extend(succ.get(x, ()))
            return False
        if not sites:
            raise Unsupported('the Publish handler does not call Topic::publish_messages itself (moved into a helper?): the structural claim cannot be stated')
        return {'sites': sites, 'cyclic': [b for b in sites if on_cycle(b)], 'blocks': len(succ)}

    def post(self, ip, p, res):
        return [Claim('Topic::publish_messages is called at exactly one site of the handler', len(res['sites']) == 1),
                Claim('that call site lies on no cycle of the handler\'s control flow (it is not in a loop)', not res['cyclic']),
                Cover('handler found', res['blocks'] > 0)]

    def model_info(self, p, m, res):
        return {'call_sites': res['sites'], 'on_cycle': res['cyclic']} if res else {}


_obligations_c08c = obligations


def obligations(ctx, cfg):
    return _obligations_c08c(ctx, cfg) + [PublishOnce()]
