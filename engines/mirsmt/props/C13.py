"""C13 - listing and pagination enumerate exactly the project's resources."""
import z3
from framework import Obligation, Claim, Cover, model_value
from values import *
from interp import run_to_end
from models_coll import Seq, MapM, select
from models_str import StrTok
from models_sync import ArcTok, ArcCell, LockM, StatusV
from props.common import *

OUTSIDE = ['byte-level behaviour of the base64 crate (opaque codec: decode(encode(x)) = x for one and the same engine)',
           'concurrent create/delete during a walk (excluded by the statement)']
ASSUMPTIONS = ['internal ids of live resources are pairwise distinct and were assigned increasingly by creation (C09.c / C10.a)']
USIZE = (1 << 64) - 1


def paging(ctx, size, offset_opt):
    return mk(ctx, 'Paging', size=S(size, 'usize'), offset=offset_opt)


class C13a(Obligation):
    id = 'C13.a'
    desc = 'Paging::new(size, offset): effective size 20 if 0, 1000 if > 1000, else size; size()/to_skip() return it (all usize)'
    bounds = {'size': 'all usize', 'offset': 'all Option<usize>'}

    def body(self, ip, p):
        ctx = ip.ctx
        sz, off, has = p.fresh('size'), p.fresh('offset'), p.fresh('has_offset', 'bool')
        p.assume(z3.And(sz >= 0, sz <= USIZE, off >= 0, off <= USIZE))
        pg = run_to_end(ip.call_fn(ctx.fn('Paging', 'new'), [S(sz, 'usize'), Enum('Option', z3.If(has, 1, 0), {1: (S(off, 'usize'),)})]))
        c = Cell(pg)
        eff = run_to_end(ip.call_fn(ctx.fn('Paging', 'size'), [Ref(Loc(c))]))
        skip = run_to_end(ip.call_fn(ctx.fn('Paging', 'to_skip'), [Ref(Loc(c))]))
        return sz, off, has, eff, skip

    def post(self, ip, p, res):
        sz, off, has, eff, skip = res
        exp = z3.If(sz == 0, 20, z3.If(sz > 1000, 1000, sz))
        return [Claim('effective size', eff.t == exp), Claim('1 <= effective <= 1000', z3.And(eff.t >= 1, eff.t <= 1000)),
                Claim('to_skip', skip.t == z3.If(has, off, 0)),
                Cover('size 0'), Cover('size 1001', sz == 1001), Cover('size 1000', sz == 1000), Cover('usize::MAX', sz == USIZE)]

    def model_info(self, p, m, res):
        return {'size': model_value(m, res[0]), 'offset': model_value(m, res[1]), 'has_offset': model_value(m, res[2])} if res else {}


class C13parse(Obligation):
    id = 'C13.a-parse'
    desc = 'parse_paging(size: i32, token): negative size / undecodable token -> InvalidArgument; empty token -> no offset; decodable token of 8 bytes -> that offset'
    bounds = {'size': 'all i32', 'token': 'opaque string; base64 as an uninterpreted total decoder'}

    def body(self, ip, p):
        ctx = ip.ctx
        sz, tok = p.fresh('page_size'), p.fresh('token')
        p.assume(z3.And(sz >= -(1 << 31), sz < (1 << 31)))
        s = StrTok(tok)
        r = run_to_end(ip.call_fn(ctx.free_fn('parse_paging'), [S(sz, 'i32'), Ref(Loc(Cell(s)))]))
        return sz, tok, r

    def post(self, ip, p, res):
        sz, tok, r = res
        ctx = ip.ctx
        from models_bytes import _ufs
        from models_str import _tok_len
        enc, dok, dlen, dval = _ufs('STANDARD')
        empty = _tok_len(tok) == 0
        decodable = z3.And(dok(tok), dlen(tok) == 8)
        out = []
        if r.discr == 1:
            st = r.payload[1][0]
            out.append(Claim('Err only for negative size or undecodable token', z3.Or(sz < 0, z3.And(z3.Not(empty), z3.Not(decodable)))))
            out.append(Claim('Err is InvalidArgument', isinstance(st, StatusV) and st.code == 'invalid_argument'))
            out.append(Cover('negative size rejected', sz == -1))
            out.append(Cover('undecodable token rejected', z3.And(sz >= 0, z3.Not(empty))))
        else:
            pg = r.payload[0][0]
            size = fld(ctx, pg, 'Paging', 'size').t
            off = fld(ctx, pg, 'Paging', 'offset')
            out.append(Claim('Ok implies size >= 0 and token empty or decodable', z3.And(sz >= 0, z3.Or(empty, decodable))))
            out.append(Claim('effective size', size == z3.If(sz == 0, 20, z3.If(sz > 1000, 1000, sz))))
            d = off.discr if not isinstance(off.discr, int) else z3.IntVal(off.discr)
            out.append(Claim('offset None iff token empty', (d == 0) == empty))
            if 1 in off.payload:
                out.append(Claim('offset == decoded value', z3.Implies(d == 1, off.payload[1][0].t == dval(tok))))
            out.append(Cover('decodable token accepted', z3.And(z3.Not(empty), sz > 0)))
            out.append(Cover('empty token'), )
        return out

    def model_info(self, p, m, res):
        return {'page_size': model_value(m, res[0])} if res else {}


class C13d(Obligation):
    id = 'C13.d'
    desc = 'PageToken::try_decode(PageToken::encode(v)) == Some(v) for all usize (base64 opaque, same engine on both sides); try_decode never panics'
    bounds = {'v': 'all usize'}

    def body(self, ip, p):
        ctx = ip.ctx
        v = p.fresh('v')
        p.assume(z3.And(v >= 0, v <= USIZE))
        tokv = run_to_end(ip.call_fn(ctx.fn('PageToken', 'new'), [S(v, 'usize')]))
        s = run_to_end(ip.call_fn(ctx.fn('PageToken', 'encode'), [Ref(Loc(Cell(tokv)))]))
        r = run_to_end(ip.call_fn(ctx.fn('PageToken', 'try_decode'), [Ref(Loc(Cell(s)))]))
        return v, r

    def post(self, ip, p, res):
        v, r = res
        ctx = ip.ctx
        out = [Claim('an issued token decodes', r.discr == 1)]
        if r.discr == 1:
            out.append(Claim('to the encoded value', fld(ctx, r.payload[1][0], 'PageToken', 'value').t == v))
            out.append(Cover('round trip path'))
        return out

    def model_info(self, p, m, res):
        return {'v': model_value(m, res[0])} if res else {}


class ListFn(Obligation):
    """the three list functions on maps of <= n symbolic entries"""

    def __init__(self, ctx, which, n):
        self.which = which
        self.n = n
        self.id = {'topics': 'C13.c-topics', 'subs': 'C13.c-subscriptions', 'topicsubs': 'C13.c-topic-subscriptions'}[which]
        self.desc = {'topics': 'TopicManager::list_topics', 'subs': 'SubscriptionManager::list_subscriptions_in_project',
                     'topicsubs': 'TopicActor::list_subscriptions'}[which] + \
            ': page == entries of the project sorted by internal id, slice [offset, offset+size); next offset = offset+len iff len>0; any offset/size'
        self.bounds = {'entries': n, 'offset': 'all usize', 'size': '1..=1000 (as produced by Paging::new)'}
        self.unroll = n + 3
        install_tokens(ctx)

    def body(self, ip, p):
        ctx = ip.ctx
        U = ctx.tok_ufs
        kind = 'Topic' if self.which == 'topics' else 'Subscription'
        pre = 'topic' if kind == 'Topic' else 'sub'
        proj, iid, idf = U[pre + '_proj'], U[pre + '_iid'], U[pre + '_id']
        ents = []
        for i in range(self.n):
            u = p.fresh('e%d_used' % i, 'bool')
            t = p.fresh('e%d_tok' % i)
            ents.append((u, t))
        for i in range(self.n):
            for j in range(i + 1, self.n):
                ui, ti = ents[i]
                uj, tj = ents[j]
                p.assume(z3.Implies(z3.And(ui, uj), z3.And(ti != tj, iid(ti) != iid(tj),
                                                           z3.Or(proj(ti) != proj(tj), idf(ti) != idf(tj)))))
        nm = 'TopicName' if kind == 'Topic' else 'SubscriptionName'
        idfield = 'topic_id' if kind == 'Topic' else 'subscription_id'
        slots = [(u, mk(ctx, nm, **{'project_id': StrTok(proj(t)), idfield: StrTok(idf(t))}), ArcTok(t, kind)) for u, t in ents]
        mp = MapM(slots)
        project = p.fresh('project')
        size, off, has = p.fresh('size'), p.fresh('offset'), p.fresh('has_offset', 'bool')
        p.assume(z3.And(size >= 1, size <= 1000, off >= 0, off <= USIZE))
        pg = paging(ctx, size, Enum('Option', z3.If(has, 1, 0), {1: (S(off, 'usize'),)}))
        if self.which == 'topics':
            state = mk_opt(ctx, 'State', 'topics/topic_manager', topics=mp, next_id=S(p.fresh('next_id'), 'u32'))
            mgr = mk(ctx, 'TopicManager', state=ArcCell(Cell(LockM('topic_manager.state', Cell(state)))))
            fn = ctx.fn('TopicManager', 'list_topics')
            r = run_to_end(ip.call_fn(fn, [Ref(Loc(Cell(mgr))), StrTok(project), pg]))
        elif self.which == 'subs':
            state = mk_opt(ctx, 'State', 'subscriptions/subscription_manager', subscriptions=mp, next_id=S(p.fresh('next_id'), 'u32'))
            mgr = mk(ctx, 'SubscriptionManager', state=ArcCell(Cell(LockM('subscription_manager.state', Cell(state)))),
                     push_registry=Opaque('push_registry'))
            fn = ctx.fn('SubscriptionManager', 'list_subscriptions_in_project')
            r = run_to_end(ip.call_fn(fn, [Ref(Loc(Cell(mgr))), StrTok(project), pg]))
        else:
            actor = mk(ctx, 'TopicActor', info=Opaque('info'), messages=Seq.empty(), subscriptions=mp, delegate=Opaque('delegate'),
                       topic_internal_id=S(p.fresh('tid'), 'u32'), next_message_id=S(p.fresh('nmid'), 'u32'),
                       deleted=S(z3.BoolVal(False), 'bool'))
            fn = ctx.fn('TopicActor', 'list_subscriptions')
            r = run_to_end(ip.call_fn(fn, [Ref(Loc(Cell(actor))), pg]))
            project = None
        return {'ents': ents, 'project': project, 'size': size, 'off': z3.If(has, off, 0), 'ret': r, 'proj': proj, 'iid': iid,
                'locks': [e for e in p.log if e[0] in ('lock', 'unlock')]}

    def post(self, ip, p, res):
        ctx = ip.ctx
        ents, project, size, off, r = res['ents'], res['project'], res['size'], res['off'], res['ret']
        proj, iid = res['proj'], res['iid']
        out = [Claim('returns Ok', r.discr == 0)]
        page = r.payload[0][0]
        pname = 'TopicsPage' if self.which == 'topics' else 'SubscriptionsPage'
        items = page.fields[0]
        nxt = page.fields[1]
        match = [z3.And(u, (proj(t) == project) if project is not None else True) for u, t in ents]
        cnt = z3.Sum([z3.If(mt, 1, 0) for mt in match] or [z3.IntVal(0)])
        lo = z3.If(off < cnt, off, cnt)
        hi = z3.If(off + size < cnt, off + size, cnt)
        out.append(Claim('page length == min(offset+size, n) - min(offset, n)', items.n == hi - lo))
        out.append(Claim('page length <= effective size', items.n <= size))
        for i, (u, t) in enumerate(ents):
            rank = z3.Sum([z3.If(z3.And(match[j], iid(ents[j][1]) < iid(t)), 1, 0) for j in range(len(ents)) if j != i] or [z3.IntVal(0)])
            inpage = z3.And(match[i], rank >= off, rank < off + size)
            if items.elems:
                e = select(items.elems, z3.If(inpage, rank - off, 0))
                out.append(Claim('entry %d at position rank-offset iff in project and in window' % i, z3.Implies(inpage, e.tok == t)))
        # nothing else in the page: every returned element is one of the matching entries
        for j, e in enumerate(items.elems):
            out.append(Claim('page[%d] is a matching entry' % j,
                             z3.Implies(items.n > j, z3.Or([z3.And(match[i], e.tok == ents[i][1]) for i in range(len(ents))] or [False]))))
        d = nxt.discr if not isinstance(nxt.discr, int) else z3.IntVal(nxt.discr)
        out.append(Claim('next offset Some iff page non-empty', (d == 1) == (items.n > 0)))
        if 1 in nxt.payload:
            out.append(Claim('next offset == offset + len', z3.Implies(d == 1, nxt.payload[1][0].t == off + items.n)))
        if self.which != 'topicsubs':
            lk = res['locks']
            out.append(Claim('lock released before return', len(lk) == 2 and lk[0][0] == 'lock' and lk[1][0] == 'unlock'))
        out.append(Cover('two entries in project, one outside, page of 1 at offset 1',
                         z3.And(cnt == 2, size == 1, off == 1, z3.Or([z3.And(u, z3.Not(mt)) for (u, _), mt in zip(ents, match)])) if project is not None
                         else z3.And(cnt >= 2, size == 1, off == 1)))
        out.append(Cover('offset beyond the end', z3.And(off > cnt, cnt > 0)))
        return out

    def model_info(self, p, m, res):
        if not res:
            return {}
        return {'size': model_value(m, res['size']), 'offset': model_value(m, res['off']),
                'entries': [{'used': model_value(m, u), 'in_project': model_value(m, res['proj'](t) == res['project']) if res['project'] is not None else True,
                             'internal_id': model_value(m, res['iid'](t))} for u, t in res['ents']]}


class C13walk(Obligation):
    id = 'C13.b'
    desc = 'next_page_from_slice_result for slices of any length: offset advances by len iff len > 0, no overflow when the slice came from skip/take of a real list'
    bounds = {'n': 'list length any usize <= 2^63', 'offset,size': 'all usize / 1..=1000'}

    def body(self, ip, p):
        ctx = ip.ctx
        n, off, size, has = p.fresh('n'), p.fresh('offset'), p.fresh('size'), p.fresh('has', 'bool')
        p.assume(z3.And(n >= 0, n <= (1 << 63), off >= 0, off <= USIZE, size >= 1, size <= 1000))
        skip = z3.If(has, off, 0)
        lo = z3.If(skip < n, skip, n)
        hi = z3.If(skip + size < n, skip + size, n)
        ln = hi - lo
        sl = Seq([], ln, 'slice')
        pg = paging(ctx, size, Enum('Option', z3.If(has, 1, 0), {1: (S(off, 'usize'),)}))
        r = run_to_end(ip.call_fn(ctx.fn('Paging', 'next_page_from_slice_result'), [Ref(Loc(Cell(pg))), Ref(Loc(Cell(sl)))]))
        return n, skip, size, ln, r

    def post(self, ip, p, res):
        n, skip, size, ln, r = res
        ctx = ip.ctx
        off = fld(ctx, r, 'Paging', 'offset')
        d = off.discr if not isinstance(off.discr, int) else z3.IntVal(off.discr)
        out = [Claim('Some iff len > 0', (d == 1) == (ln > 0)), Claim('size kept', fld(ctx, r, 'Paging', 'size').t == size)]
        if 1 in off.payload:
            o2 = off.payload[1][0].t
            out.append(Claim('walk lemma: pages so far cover [0, skip) => next covers [skip, skip+len), new offset = min(skip+size, n)',
                             z3.Implies(d == 1, z3.And(o2 == skip + ln, o2 == z3.If(skip + size < n, skip + size, n), o2 > skip))))
        out.append(Cover('last partial page', z3.And(ln > 0, ln < size)))
        out.append(Cover('empty page ends the walk', z3.And(ln == 0, n > 0)))
        return out


def obligations(ctx, cfg):
    n = 3 if cfg['tier'] == 'quick' else 5
    from props.C09 import CreateTopic
    from props.C16 import CreateSubscription
    ct, cs = CreateTopic(), CreateSubscription(ctx, abandon=False)
    ct.id, cs.id = 'C13.c-ids-topics', 'C13.c-ids-subscriptions'
    return [C13a(), C13parse(), C13walk(), C13d(), ListFn(ctx, 'topics', n), ListFn(ctx, 'subs', n), ListFn(ctx, 'topicsubs', n), ct, cs]


def kani_harnesses(cfg):
    q = cfg['tier'] == 'quick'
    hs = [{'id': 'K4-paging-new', 'harness': 'k4_paging_new', 'quick': True, 'desc': 'Paging::new/size/to_skip on the compiled code, all usize'}, {'id': 'K4-next-page', 'harness': 'k4_next_page', 'desc': 'next_page_from_slice_result on the compiled code (slices <= 4)'}]
    return [h for h in hs if not q or h.get('quick')]


# ---------------------------------------------------------------------- handler level: the glue around the list functions
from framework import run_async


class ListTopicsHandler(Obligation):
    id = 'C13.e-list_topics-handler'
    tier = 'T3'
    desc = ('ListTopics handler: malformed paging / project -> INVALID_ARGUMENT; otherwise the response lists exactly the topics of the page the manager returned, '
            'in that order, under their canonical names, and next_page_token is the encoding of the page\'s offset (empty when there is none)')
    bounds = {'topics': 2, 'page_size': '1..=1000 after parsing', 'offset': '< 2^32'}
    unroll = 6

    def body(self, ip, p):
        ctx = ip.ctx
        from props.service import sym_managers, proto, request, start_handler
        from props.C10 import typed_reply
        from models_core import ok, err
        from models_sync import StatusV
        install_tokens(ctx)
        ctx.on_enqueue = typed_reply
        h = sym_managers(ctx, p, 2, 1)
        req = proto(ctx, 'ListTopicsRequest', project=StrTok(p.fresh('project_field')), page_size=S(p.fresh('page_size'), 'i32'), page_token=StrTok(p.fresh('token_field')))
        seen = []
        ip.ret_hooks = {r'TopicManager::list_topics$': lambda ip_, c, a, r: seen.append(r)}
        sz, off, has = p.fresh('pg_size'), p.fresh('pg_off'), p.fresh('pg_has', 'bool')
        p.assume(z3.And(sz >= 1, sz <= 1000, off >= 0, off < (1 << 32)))
        paging = mk(ctx, 'Paging', size=S(sz, 'usize'), offset=Enum('Option', z3.If(has, 1, 0), {1: (S(off, 'usize'),)}))
        pg_ok, pj_ok = p.fresh('paging_ok', 'bool'), p.fresh('project_ok', 'bool')
        bad = lambda: err(StatusV('invalid_argument'))

        def hook_paging(ip_, c, a):
            return (ok(paging),) if ip_.path.branch(pg_ok, 'paging ok') else (bad(),)

        def hook_project(ip_, c, a):
            return (ok(StrTok(p.fresh('project'))),) if ip_.path.branch(pj_ok, 'project ok') else (bad(),)
        ip.hooks[r'parse_paging$'] = hook_paging
        ip.hooks[r'parse_project_id$'] = hook_project
        fut = start_handler(ip, p, 'publisher', 'list_topics', h['publisher'], request(req))
        res, k = run_async(ip, p, fut, budget=0)
        return {'ret': res, 'seen': seen, 'pg_ok': pg_ok, 'pj_ok': pj_ok, 'log': list(p.log)}

    def post(self, ip, p, res):
        ctx = ip.ctx
        r = res['ret']
        out = []
        from props.service import status_code
        if r.discr == 1:
            out.append(Claim('only INVALID_ARGUMENT, only for malformed paging or project', z3.And(z3.BoolVal(status_code(r.payload[1][0]) == 'invalid_argument'),
                                                                                                z3.Or(z3.Not(res['pg_ok']), z3.Not(res['pj_ok'])))))
            out.append(Claim('rejected before the namespace is read', len(res['seen']) == 0))
            out.append(Cover('rejected'))
            return out
        out.append(Claim('accepted only when paging and project are well-formed', z3.And(res['pg_ok'], res['pj_ok'])))
        out.append(Claim('the namespace is listed exactly once', len(res['seen']) == 1))
        if len(res['seen']) != 1:
            return out
        page = res['seen'][0].payload[0][0]
        topics = fld(ctx, page, 'TopicsPage', 'topics')
        offset = fld(ctx, page, 'TopicsPage', 'offset')
        resp = r.payload[0][0].fields[0]
        order = ctx.src.struct_fields('ListTopicsResponse', 'pubsub_proto_generated')
        items = resp.fields[order.index('topics')]
        tok = resp.fields[order.index('next_page_token')]
        out.append(Claim('as many topics as the page holds', items.n == topics.n))
        torder = ctx.src.struct_fields('Topic', 'pubsub_proto_generated')
        for i in range(min(len(items.elems), len(topics.elems))):
            tv = read_loc(topics.elems[i].deref_loc(ip))
            name = fld(ctx, tv, 'Topic', 'name', 'topics/topic')
            want = run_to_end(ip.call('<topic_name::TopicName as ToString>::to_string', [Ref(Loc(Cell(name)))]))
            got = items.elems[i].fields[torder.index('name')]
            same = (got.tok == want.tok) if hasattr(got, 'tok') and hasattr(want, 'tok') else z3.BoolVal(False)
            out.append(Claim('item %d is topic %d of the page, under its canonical name' % (i, i), z3.Implies(topics.n > i, same)))
        od = offset.discr if not isinstance(offset.discr, int) else z3.IntVal(offset.discr)
        from models_str import Str
        if isinstance(tok, Str):
            out.append(Claim('an empty next_page_token only when the page has no offset', z3.And(od == 0, z3.BoolVal(tok.concrete() == b''))))
            out.append(Cover('last page'))
        else:
            pt = run_to_end(ip.call_fn(ctx.fn('PageToken', 'new'), [offset.payload[1][0]]))
            want = run_to_end(ip.call_fn(ctx.fn('PageToken', 'encode'), [Ref(Loc(Cell(pt)))]))
            out.append(Claim('next_page_token is the encoding of the page offset', z3.And(od == 1, tok.tok == want.tok) if hasattr(want, 'tok') else False))
            out.append(Cover('more pages'))
        out.append(Cover('two topics listed', items.n == 2))
        return out


_obligations_c13 = obligations


def obligations(ctx, cfg):
    return _obligations_c13(ctx, cfg) + [ListTopicsHandler()]


from interp import concrete_int


class TopicManagerHistory(Obligation):
    """TopicManager::new() for real, then a fixed history through its public functions - no field of the manager is named"""
    id = 'C13.f-history-topic-manager'
    tier = 'T3'
    desc = ('TopicManager::new(), create a, b, c, delete one of them, create d, then ListTopics of the project: exactly the live topics, in creation order; '
            'walking it with page size 1 / 2 visits the same sequence once')
    bounds = {'history': 'create x3, delete (a | b | c), create, list', 'page_size': '1, 2 and 1000'}
    unroll = 10

    def body(self, ip, p):
        ctx = ip.ctx
        install_tokens(ctx)
        from props.C16 import default_reply
        ctx.on_enqueue = default_reply
        mgr = run_to_end(ip.call_fn(ctx.fn('TopicManager', 'new'), []))
        mcell = Cell(mgr, 'manager')
        proj = p.fresh('project')
        ids = [p.fresh('id_%s' % x) for x in 'abcd']
        p.assume(z3.Distinct(ids))
        names = [mk(ctx, 'TopicName', project_id=StrTok(proj), topic_id=StrTok(i)) for i in ids]
        created = []
        for nm in names[:3]:
            created.append(run_to_end(ip.call_fn(ctx.fn('TopicManager', 'create_topic'), [Ref(Loc(mcell)), nm])))
        k = p.choose(3, 'which topic is deleted')
        delegate = mk(ctx, 'TopicManagerDelegate', state=fld(ctx, mcell.v, 'TopicManager', 'state'))
        run_to_end(ip.call_fn(ctx.fn('TopicManagerDelegate', 'delete'), [Ref(Loc(Cell(delegate))), Ref(Loc(Cell(names[k])))]))
        created.append(run_to_end(ip.call_fn(ctx.fn('TopicManager', 'create_topic'), [Ref(Loc(mcell)), names[3]])))
        pages = {}
        for size in (1000, 2, 1):
            seq = []
            offset = Enum('Option', 0, {})
            for _ in range(5):
                paging = run_to_end(ip.call_fn(ctx.fn('Paging', 'new'), [S(z3.IntVal(size), 'usize'), offset]))
                r = run_to_end(ip.call_fn(ctx.fn('TopicManager', 'list_topics'), [Ref(Loc(mcell)), StrTok(proj), paging]))
                if r.discr != 0:
                    seq = None
                    break
                page = r.payload[0][0]
                ts = fld(ctx, page, 'TopicsPage', 'topics')
                n = concrete_int(ts.n)
                if n is None:
                    raise Unsupported('page length is not concrete in a concrete history')
                seq += [ts.elems[i] for i in range(n)]
                off = fld(ctx, page, 'TopicsPage', 'offset')
                od = off.discr if isinstance(off.discr, int) else concrete_int(off.discr)
                if od != 1:
                    break
                offset = off
            pages[size] = seq
        return {'names': names, 'k': k, 'created': created, 'pages': pages}

    def post(self, ip, p, res):
        ctx = ip.ctx
        names, k = res['names'], res['k']
        out = [Claim('all four creates succeed', all(c.discr == 0 for c in res['created']))]
        want = [names[i] for i in range(3) if i != k] + [names[3]]
        for size, seq in res['pages'].items():
            out.append(Claim('listing with page size %d succeeds' % size, seq is not None))
            if seq is None:
                continue
            conj = [z3.BoolVal(len(seq) == len(want))]
            for t, w in zip(seq, want):
                tv = read_loc(t.deref_loc(ip))
                conj.append(eq_val(fld(ctx, tv, 'Topic', 'name', 'topics/topic'), w))
            out.append(Claim('page size %d: exactly the live topics %s in creation order, each once' % (size, ['abcd'[names.index(w)] for w in want]), z3.And(conj)))
        out.append(Cover('reached'))
        return out


_obligations_c13b = obligations


def obligations(ctx, cfg):
    return _obligations_c13b(ctx, cfg) + [TopicManagerHistory()]


class SubscriptionManagerHistory(Obligation):
    """SubscriptionManager::new() for real, then a fixed history through its public functions - no field of the manager is named"""
    id = 'C13.g-history-subscription-manager'
    tier = 'T3'
    desc = ('SubscriptionManager::new(), create a, b, c on one topic, delete one of them, create d, then list the project: exactly the live subscriptions, in '
            'creation order; walking it with page size 1 / 2 visits the same sequence once')
    bounds = {'history': 'create x3, delete (a | b | c), create, list', 'page_size': '1, 2 and 1000'}
    unroll = 10

    def body(self, ip, p):
        ctx = ip.ctx
        install_tokens(ctx)
        from props.C10 import typed_reply
        from models_sync import ArcCell, ArcTok, LockM
        from models_coll import MapM
        ctx.on_enqueue = typed_reply
        U = ctx.tok_ufs
        pstate = Cell(mk_single(ctx, 'PushSubscriptionsRegistryState', MapM([])), 'pstate')
        reg = mk(ctx, 'PushSubscriptionsRegistry', state=ArcCell(Cell(LockM('push_registry.state', pstate))))
        mgr = run_to_end(ip.call_fn(ctx.fn('SubscriptionManager', 'new'), [reg]))
        mcell = Cell(mgr, 'manager')
        topic = p.fresh('topic_tok')
        proj = U['topic_proj'](topic)
        ids = [p.fresh('id_%s' % x) for x in 'abcd']
        p.assume(z3.Distinct(ids))
        names = [mk(ctx, 'SubscriptionName', project_id=StrTok(proj), subscription_id=StrTok(i)) for i in ids]

        def create(nm):
            info = mk(ctx, 'SubscriptionInfo', name=nm, ack_deadline=S(z3.IntVal(10 * 1_000_000_000), 'Duration'), push_config=Enum('Option', 0, {}))
            coro = run_to_end(ip.call_fn(ctx.fn('SubscriptionManager', 'create_subscription'), [Ref(Loc(mcell)), info, ArcTok(topic, 'Topic')]))
            res, _ = run_async(ip, p, coro, budget=0)
            return res
        created = [create(nm) for nm in names[:3]]
        k = p.choose(3, 'which subscription is deleted')
        delegate = mk(ctx, 'SubscriptionManagerDelegate', state=fld(ctx, mcell.v, 'SubscriptionManager', 'state'))
        run_to_end(ip.call_fn(ctx.fn('SubscriptionManagerDelegate', 'delete'), [Ref(Loc(Cell(delegate))), Ref(Loc(Cell(names[k])))]))
        created.append(create(names[3]))
        pages = {}
        for size in (1000, 2, 1):
            seq = []
            offset = Enum('Option', 0, {})
            for _ in range(5):
                paging = run_to_end(ip.call_fn(ctx.fn('Paging', 'new'), [S(z3.IntVal(size), 'usize'), offset]))
                r = run_to_end(ip.call_fn(ctx.fn('SubscriptionManager', 'list_subscriptions_in_project'), [Ref(Loc(mcell)), StrTok(proj), paging]))
                if r.discr != 0:
                    seq = None
                    break
                page = r.payload[0][0]
                ts = fld(ctx, page, 'SubscriptionsPage', 'subscriptions')
                n = concrete_int(ts.n)
                if n is None:
                    raise Unsupported('page length is not concrete in a concrete history')
                seq += [ts.elems[i] for i in range(n)]
                off = fld(ctx, page, 'SubscriptionsPage', 'offset')
                od = off.discr if isinstance(off.discr, int) else concrete_int(off.discr)
                if od != 1:
                    break
                offset = off
            pages[size] = seq
        return {'names': names, 'k': k, 'created': created, 'pages': pages}

    def post(self, ip, p, res):
        ctx = ip.ctx
        names, k = res['names'], res['k']
        out = [Claim('all four creates succeed', all(c.discr == 0 for c in res['created']))]
        want = [names[i] for i in range(3) if i != k] + [names[3]]
        for size, seq in res['pages'].items():
            out.append(Claim('listing with page size %d succeeds' % size, seq is not None))
            if seq is None:
                continue
            conj = [z3.BoolVal(len(seq) == len(want))]
            for t, w in zip(seq, want):
                sv = read_loc(t.deref_loc(ip))
                conj.append(eq_val(fld(ctx, sv, 'Subscription', 'name', 'subscriptions/subscription'), w))
            out.append(Claim('page size %d: exactly the live subscriptions %s in creation order, each once' % (size, ['abcd'[names.index(w)] for w in want]), z3.And(conj)))
        out.append(Cover('reached'))
        return out


_obligations_c13c = obligations


def obligations(ctx, cfg):
    return _obligations_c13c(ctx, cfg) + [SubscriptionManagerHistory()]


class ListTopicSubscriptionsHandler(Obligation):
    id = 'C13.e-list_topic_subscriptions-handler'
    tier = 'T3'
    desc = ('ListTopicSubscriptions handler: the paging it parsed is the paging the topic actor is asked with; the response lists exactly the subscriptions of the '
            'page the actor answered with, in that order, under their canonical names; next_page_token is the encoding of the page\'s offset (empty when none)')
    bounds = {'page': '<= 2 subscriptions', 'offset': '< 2^32'}
    unroll = 6

    def body(self, ip, p):
        ctx = ip.ctx
        from props.service import sym_managers, proto, request, start_handler
        from framework import responder_of
        from models_core import ok, err
        from models_sync import StatusV, ArcTok
        from models_coll import Seq
        install_tokens(ctx)
        h = sym_managers(ctx, p, 1, 1)
        p.assume(h['topics'][0][0])
        ttok = h['topics'][0][1]
        U = ctx.tok_ufs
        tname = mk(ctx, 'TopicName', project_id=StrTok(U['topic_proj'](ttok)), topic_id=StrTok(U['topic_id'](ttok)))
        ip.hooks[r'^parse_topic_name$'] = lambda ip_, c, a: (ok(tname),)
        sz, off, has = p.fresh('pg_size'), p.fresh('pg_off'), p.fresh('pg_has', 'bool')
        p.assume(z3.And(sz >= 1, sz <= 1000, off >= 0, off < (1 << 32)))
        paging = mk(ctx, 'Paging', size=S(sz, 'usize'), offset=Enum('Option', z3.If(has, 1, 0), {1: (S(off, 'usize'),)}))
        ip.hooks[r'parse_paging$'] = lambda ip_, c, a: (ok(paging),)
        subs = [p.fresh('page_sub%d_tok' % i) for i in range(2)]
        n = p.fresh('page_len')
        p.assume(z3.And(n >= 0, n <= 2))
        noff, nhas = p.fresh('next_off'), p.fresh('next_has', 'bool')
        p.assume(z3.And(noff >= 0, noff < (1 << 32)))
        page = mk(ctx, 'SubscriptionsPage', subscriptions=Seq([ArcTok(t, 'Subscription') for t in subs], n), offset=Enum('Option', z3.If(nhas, 1, 0), {1: (S(noff, 'usize'),)}))
        asked = []

        def on_enqueue(ip_, sender, req):
            asked.append(req)
            tx = responder_of(req)
            replies = getattr(p, 'replies', {})
            replies[tx.cid] = ok(page)
            p.replies = replies
        ctx.on_enqueue = on_enqueue
        req = proto(ctx, 'ListTopicSubscriptionsRequest', topic=StrTok(p.fresh('topic_field')), page_size=S(p.fresh('page_size'), 'i32'), page_token=StrTok(p.fresh('token_field')))
        fut = start_handler(ip, p, 'publisher', 'list_topic_subscriptions', h['publisher'], request(req))
        res, k = run_async(ip, p, fut, budget=0)
        return {'ret': res, 'asked': asked, 'paging': paging, 'subs': subs, 'n': n, 'noff': noff, 'nhas': nhas}

    def post(self, ip, p, res):
        ctx = ip.ctx
        U = ctx.tok_ufs
        r = res['ret']
        out = [Claim('the handler succeeds', r.discr == 0)]
        if r.discr != 0:
            return out
        ev = ip.src.enum_variants('TopicRequest')
        out.append(Claim('exactly one request to the topic: ListSubscriptions', len(res['asked']) == 1 and ev[res['asked'][0].discr][0] == 'ListSubscriptions'))
        if len(res['asked']) == 1:
            rq = res['asked'][0]
            names = ev[rq.discr][1]
            pg = rq.payload[rq.discr][names.index('paging')]
            out.append(Claim('the topic is asked with the paging that was parsed', eq_val(pg, res['paging'])))
        resp = r.payload[0][0].fields[0]
        order = ctx.src.struct_fields('ListTopicSubscriptionsResponse', 'pubsub_proto_generated')
        items = resp.fields[order.index('subscriptions')]
        tok = resp.fields[order.index('next_page_token')]
        n = res['n']
        out.append(Claim('as many names as the page holds', items.n == n))
        for i in range(min(len(items.elems), 2)):
            t = res['subs'][i]
            name = mk(ctx, 'SubscriptionName', project_id=StrTok(U['sub_proj'](t)), subscription_id=StrTok(U['sub_id'](t)))
            want = run_to_end(ip.call('<subscription_name::SubscriptionName as ToString>::to_string', [Ref(Loc(Cell(name)))]))
            got = items.elems[i]
            same = (got.tok == want.tok) if hasattr(got, 'tok') and hasattr(want, 'tok') else z3.BoolVal(False)
            out.append(Claim('name %d is the canonical name of subscription %d of the page' % (i, i), z3.Implies(n > i, same)))
        from models_str import Str
        if isinstance(tok, Str):
            out.append(Claim('an empty next_page_token only when the page has no offset', z3.And(z3.Not(res['nhas']), z3.BoolVal(tok.concrete() == b''))))
            out.append(Cover('last page'))
        else:
            pt = run_to_end(ip.call_fn(ctx.fn('PageToken', 'new'), [S(res['noff'], 'usize')]))
            want = run_to_end(ip.call_fn(ctx.fn('PageToken', 'encode'), [Ref(Loc(Cell(pt)))]))
            out.append(Claim('next_page_token is the encoding of the page offset', z3.And(res['nhas'], tok.tok == want.tok) if hasattr(want, 'tok') else False))
            out.append(Cover('more pages'))
        out.append(Cover('two names listed', n == 2))
        return out


_obligations_c13d = obligations


def obligations(ctx, cfg):
    return _obligations_c13d(ctx, cfg) + [ListTopicSubscriptionsHandler()]


class ListSubscriptionsHandler(Obligation):
    id = 'C13.e-list_subscriptions-handler'
    tier = 'T3'
    desc = ('ListSubscriptions handler: malformed paging / project -> INVALID_ARGUMENT; otherwise one resource per subscription of the page the manager returned, '
            'each read back from that subscription, in page order; next_page_token is the encoding of the page\'s offset (empty when there is none)')
    bounds = {'subscriptions': 2, 'page_size': '1..=1000 after parsing', 'offset': '< 2^32'}
    unroll = 6

    def body(self, ip, p):
        ctx = ip.ctx
        from props.service import sym_managers, proto, request, start_handler
        from props.C10 import typed_reply
        from models_core import ok, err
        from models_sync import StatusV
        install_tokens(ctx)
        ctx.on_enqueue = typed_reply
        h = sym_managers(ctx, p, 1, 2)
        req = proto(ctx, 'ListSubscriptionsRequest', project=StrTok(p.fresh('project_field')), page_size=S(p.fresh('page_size'), 'i32'), page_token=StrTok(p.fresh('token_field')))
        seen = []
        ip.ret_hooks = {r'SubscriptionManager::list_subscriptions_in_project$': lambda ip_, c, a, r: seen.append(r)}
        sz, off, has = p.fresh('pg_size'), p.fresh('pg_off'), p.fresh('pg_has', 'bool')
        p.assume(z3.And(sz >= 1, sz <= 1000, off >= 0, off < (1 << 32)))
        paging = mk(ctx, 'Paging', size=S(sz, 'usize'), offset=Enum('Option', z3.If(has, 1, 0), {1: (S(off, 'usize'),)}))
        pg_ok, pj_ok = p.fresh('paging_ok', 'bool'), p.fresh('project_ok', 'bool')
        bad = lambda: err(StatusV('invalid_argument'))
        ip.hooks[r'parse_paging$'] = lambda ip_, c, a: (ok(paging),) if ip_.path.branch(pg_ok, 'paging ok') else (bad(),)
        ip.hooks[r'parse_project_id$'] = lambda ip_, c, a: (ok(StrTok(p.fresh('project'))),) if ip_.path.branch(pj_ok, 'project ok') else (bad(),)
        fut = start_handler(ip, p, 'subscriber', 'list_subscriptions', h['subscriber'], request(req))
        res, k = run_async(ip, p, fut, budget=0)
        return {'ret': res, 'seen': seen, 'pg_ok': pg_ok, 'pj_ok': pj_ok, 'log': list(p.log)}

    def post(self, ip, p, res):
        ctx = ip.ctx
        from props.service import status_code
        r = res['ret']
        out = []
        if r.discr == 1:
            out.append(Claim('only INVALID_ARGUMENT, only for malformed paging or project', z3.And(z3.BoolVal(status_code(r.payload[1][0]) == 'invalid_argument'),
                                                                                                z3.Or(z3.Not(res['pg_ok']), z3.Not(res['pj_ok'])))))
            out.append(Claim('rejected before the namespace is read', len(res['seen']) == 0))
            out.append(Cover('rejected'))
            return out
        out.append(Claim('accepted only when paging and project are well-formed', z3.And(res['pg_ok'], res['pj_ok'])))
        out.append(Claim('the namespace is listed exactly once', len(res['seen']) == 1))
        if len(res['seen']) != 1:
            return out
        page = res['seen'][0].payload[0][0]
        subs = fld(ctx, page, 'SubscriptionsPage', 'subscriptions')
        offset = fld(ctx, page, 'SubscriptionsPage', 'offset')
        resp = r.payload[0][0].fields[0]
        order = ctx.src.struct_fields('ListSubscriptionsResponse', 'pubsub_proto_generated')
        items = resp.fields[order.index('subscriptions')]
        tok = resp.fields[order.index('next_page_token')]
        out.append(Claim('as many resources as the page holds', items.n == subs.n))
        ev = ip.src.enum_variants('SubscriptionRequest')
        infos = [e for e in res['log'] if e[0] == 'enqueue' and e[1] == 'subscription' and ev[e[3].discr][0] == 'GetInfo']
        nn = concrete_int(subs.n)
        if nn is not None:
            out.append(Claim('each subscription of the page is read back once, in page order',
                             z3.And([z3.BoolVal(len(infos) == nn)] + [infos[i][2] == subs.elems[i].tok for i in range(min(nn, len(infos)))])))
        od = offset.discr if not isinstance(offset.discr, int) else z3.IntVal(offset.discr)
        from models_str import Str
        if isinstance(tok, Str):
            out.append(Claim('an empty next_page_token only when the page has no offset', z3.And(od == 0, z3.BoolVal(tok.concrete() == b''))))
            out.append(Cover('last page'))
        else:
            pt = run_to_end(ip.call_fn(ctx.fn('PageToken', 'new'), [offset.payload[1][0]]))
            want = run_to_end(ip.call_fn(ctx.fn('PageToken', 'encode'), [Ref(Loc(Cell(pt)))]))
            out.append(Claim('next_page_token is the encoding of the page offset', z3.And(od == 1, tok.tok == want.tok) if hasattr(want, 'tok') else False))
            out.append(Cover('more pages'))
        out.append(Cover('two subscriptions listed', items.n == 2))
        return out


_obligations_c13e = obligations


def obligations(ctx, cfg):
    return _obligations_c13e(ctx, cfg) + [ListSubscriptionsHandler()]
