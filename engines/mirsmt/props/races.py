"""Tier 4 races between real consumer handlers (unary Pull, StreamingPull generator) and actor events handled
atomically by the real actor code (post, nack, expiry, delete) on one shared subscription."""
import z3
from framework import Obligation, Claim, Cover, model_value, run_async, find_values, responder_of
from values import *
from interp import Interp, run_to_end
from t4 import NotifyT4, Activity, run_activities, future_activity
from models_core import ok, err
from models_async import OneshotTx, Leaf, StreamingM, MergeM, poll_stream_next
from models_coll import Seq
from models_sync import ArcCell, ArcTok, LockM, StatusV
from models_str import StrTok
from props.common import *
from props.actor_steps import actor_fields, tracker_parts
from props.service import sym_managers, proto, request, start_handler, status_code


class ConsumerRace(Obligation):
    tier = 'T4'

    def __init__(self, ctx, id_, consumers, events, n_out=1, n_back=1, stall_after=None, backlog_exact=None, first=(), select_in_order=False):
        self.select_in_order = select_in_order
        self.first = tuple(first)           # indices of consumers that run alone (until parked / stalled / done) before the race starts
        self.stall_after = stall_after      # a StreamingPull whose client stops reading after this many responses (HTTP/2 back-pressure)
        self.backlog_exact = backlog_exact
        """consumers: list of 'pull' / 'stream'; events: list of 'post' / 'nack' / 'expire' / 'delete'"""
        self.id = id_
        self.consumers, self.events = list(consumers), list(events)
        self.n_out, self.n_back = n_out, n_back
        self.desc = ('consumers [%s] (real handler MIR incl. select! / the StreamingPull generator) interleaved at every shared operation with the '
                     'actor handling [%s] atomically' % (', '.join(consumers), ', '.join(events)))
        self.bounds = {'consumers': list(consumers), 'events': list(events), 'outstanding_before': '<= %d' % n_out, 'backlog_before': '<= %d' % n_back,
                       'granularity': 'Notify call / one-shot / mailbox send / actor step'}
        if select_in_order:
            self.bounds['select! start index'] = 0
        if first:
            self.desc += '; consumer(s) %s run alone first' % ', '.join(str(i) for i in first)
            self.bounds['run_alone_first'] = list(first)
        if stall_after is not None:
            self.desc += '; the StreamingPull client stops reading after %d response(s): its generator stays suspended at the yield' % stall_after
            self.bounds['stream_stalls_after_responses'] = stall_after
        self.max_paths = 400000
        self.unroll = 8

    # ---------------------------------------------------------------- set-up
    def body(self, ip, p):
        ctx = ip.ctx
        install_tokens(ctx)
        p.timers_never_fire = True
        p.deleted_by_oneshot = True
        p.select_in_order = self.select_in_order
        st = sym_actor(ctx, p, self.n_out, self.n_back, deleted=False)
        if self.backlog_exact is not None:
            p.assume(actor_fields(ctx, st.cell.v)['backlog'].n == self.backlog_exact)
        notify = NotifyT4('messages_available')
        a = st.cell.v
        order = ctx.src.struct_fields('SubscriptionActor')
        old_obs = read_loc(a.fields[order.index('observer')].deref_loc(ip))
        oo = ctx.src.struct_fields('SubscriptionObserver')
        f_obs = list(old_obs.fields)
        f_obs[oo.index('notify_messages_available')] = notify
        obs_cell = Cell(Agg(old_obs.name, f_obs), 'shared-observer')
        fs = list(a.fields)
        fs[order.index('observer')] = ArcCell(obs_cell)
        # the topic is gone or answers at once: the deletion itself is one atomic actor step
        st.cell.v = Agg(a.name, fs)
        default_sub = ctx.tok_kinds['Subscription']

        def sub_pointee(ip_, tok):
            v = default_sub(ip_, tok)
            o = ctx.src.struct_fields('Subscription', 'subscriptions/subscription')
            f2 = list(v.fields)
            f2[o.index('observer')] = ArcCell(obs_cell)
            return Agg(v.name, f2)
        ctx.tok_kinds['Subscription'] = sub_pointee
        h = sym_managers(ctx, p)
        U = ctx.tok_ufs
        stok = h['subs'][0][1]
        p.assume(h['subs'][0][0])
        actor_ip = Interp(ctx, p, unroll=8)
        state = {'deleted_done': False}

        def on_enqueue(ip_, sender, req):
            if sender.kind == 'topic':
                tx = responder_of(req)
                if tx is not None:
                    replies = getattr(p, 'replies', {})
                    replies[tx.cid] = ok(UNIT)
                    p.replies = replies
                return
            ev = ip_.src.enum_variants('SubscriptionRequest')
            variant = ev[req.discr][0]
            if variant != 'PullMessages':
                raise Unsupported('unexpected request %s' % variant)
            mx, tx = req.payload[req.discr]
            r = run_to_end(actor_ip.call_fn(ctx.fn('SubscriptionActor', 'pull_messages'), [Ref(Loc(st.cell), True), mx]))
            replies = getattr(p, 'replies', {})
            replies[tx.cid] = r
            p.replies = replies
        ctx.on_enqueue = on_enqueue
        regname = mk(ctx, 'SubscriptionName', project_id=StrTok(U['sub_proj'](stok)), subscription_id=StrTok(U['sub_id'](stok)))
        acts, streams = [], {}
        for c, kind in enumerate(self.consumers):
            cip = Interp(ctx, p, unroll=8)
            cip.hooks[r'^parse_subscription_name$'] = lambda ip_, callee, args: (ok(regname),)
            act = Activity('%s%d' % (kind, c), cip)
            if kind == 'pull':
                mx = p.fresh('max_messages%d' % c)
                p.assume(z3.And(mx >= 1, mx < (1 << 31)))
                req = proto(ctx, 'PullRequest', subscription=StrTok(p.fresh('name_field')), return_immediately=S(z3.BoolVal(False), 'bool'),
                            max_messages=S(mx, 'i32'))
                fut = start_handler(cip, p, 'subscriber', 'pull', h['subscriber'], request(req))
                cip.activity = act
                act.gen = future_activity(act, Loc(Cell(fut, 'pull-future')), max_polls=8)
            else:
                mom = p.fresh('max_outstanding_messages%d' % c)
                p.assume(z3.And(mom >= 1, mom < 65536))
                first = proto(ctx, 'StreamingPullRequest', subscription=StrTok(p.fresh('name_field')), ack_ids=Seq.empty(),
                              modify_deadline_seconds=Seq.empty(), modify_deadline_ack_ids=Seq.empty(),
                              max_outstanding_messages=S(mom, 'i64'), max_outstanding_bytes=S(p.fresh('mob'), 'i64'))
                fut = start_handler(cip, p, 'subscriber', 'streaming_pull', h['subscriber'], request(StreamingM([first])))
                res, _ = run_async(cip, p, fut, budget=0)
                if res.discr != 0:
                    raise Unsupported('stream set-up failed')
                pull_stream = find_values(res, MergeM)[0].b
                cip.activity = act
                act.items = []
                act.gen = self._stream_activity(act, pull_stream)
            acts.append(act)
        nc = len(acts)
        added = []
        for i, evk in enumerate(self.events):
            eip = Interp(ctx, p, unroll=8)
            act = Activity('%s%d' % (evk, i), eip)
            act.gen = self._event(ctx, p, st, actor_ip, act, evk, added, state)
            acts.append(act)
        from t4 import prime
        prime(acts)
        if state.get('skip'):
            raise Infeasible()
        for i in self.first:
            run_activities(p, [acts[i]])
        run_activities(p, acts)
        return {'st': st, 'acts': acts, 'nc': nc, 'notify': notify, 'state': state}

    def _stream_activity(self, act, stream, max_polls=8):
        ip = act.ip
        for _ in range(max_polls):
            act.woken = False
            act.polls += 1
            r = yield from poll_stream_next(ip, stream)
            if r.discr == 1:
                yield ('park',)
                continue
            it = r.payload[0][0]
            if it.discr == 0:
                return 'ended'
            act.items.append(it.payload[1][0])
            if self.stall_after is not None and len(act.items) >= self.stall_after:
                act.stalled = True
                return 'stalled'
        raise OutOfBound('stream polled more than %d times' % max_polls)

    def _event(self, ctx, p, st, actor_ip, act, kind, added, state):
        if kind == 'post':
            tok = p.fresh('new_tok%d' % len(added))
            for d in st.ds:
                p.assume(tok != d.tok)
            for b in st.btoks:
                p.assume(tok != b)
            for t0 in added:
                p.assume(tok != t0)
            added.append(tok)
            p.effect('op', act.name, 'actor handles PostMessages')
            yield ('sched', 'post')
            run_to_end(actor_ip.call_fn(ctx.fn('SubscriptionActor', 'post_messages'), [Ref(Loc(st.cell), True), Seq([ArcTok(tok, 'TopicMessage')], 1, 'vec')]))
        elif kind == 'nack':
            p.assume(st.ds[0].used)
            p.effect('op', act.name, 'actor handles a nack')
            yield ('sched', 'nack')
            mods = Seq([mk(ctx, 'DeadlineModification', ack_id=ack_id(ctx, st.ds[0].ack), new_deadline=Enum('Option', 0, {}))], 1, 'vec')
            run_to_end(actor_ip.call_fn(ctx.fn('SubscriptionActor', 'modify_deadline'), [Ref(Loc(st.cell), True), mods]))
        elif kind == 'expire':
            p.assume(st.ds[0].used)
            p.effect('op', act.name, 'actor handles an expired delivery')
            yield ('sched', 'expire')
            order = ctx.src.struct_fields('SubscriptionActor')
            oi = order.index('outstanding')
            now = S(st.ds[0].dl, 'Instant')
            expired = run_to_end(actor_ip.call_fn(ctx.fn('OutstandingMessageTracker', 'take_expired'),
                                                  [Ref(Loc(st.cell, (('f', oi),)), True), Ref(Loc(Cell(now)))]))
            run_to_end(actor_ip.call_fn(ctx.fn('SubscriptionActor', 'handle_expired_messages'), [Ref(Loc(st.cell), True), expired]))
        elif kind == 'delete':
            p.effect('op', act.name, 'actor handles Delete')
            yield ('sched', 'delete')
            from props.C16 import default_reply
            coro = run_to_end(actor_ip.call_fn(ctx.fn('SubscriptionActor', 'delete'), [Ref(Loc(st.cell), True)]))
            run_async(actor_ip, p, coro, budget=0)
            state['deleted_done'] = True
            # from now on the actor task may already have ended: its mailbox may be closed
            p.allow_closed = True
        return None

    # ---------------------------------------------------------------- claims
    def post(self, ip, p, res):
        ctx = ip.ctx
        st, acts, nc = res['st'], res['acts'], res['nc']
        f = actor_fields(ctx, st.cell.v)
        consumers, events = acts[:nc], acts[nc:]
        deleting = 'delete' in self.events
        out = [Claim('every event was handled', all(a.state == 'done' for a in events))]
        for a in consumers:
            out.append(Claim('%s is done or parked at the end of the schedule' % a.name, a.state in ('done', 'parked')))
            if getattr(a, 'stalled', False):
                continue
            if deleting:
                # after the deletion has been processed nobody may be left waiting
                if a.name.startswith('stream'):
                    last = a.items[-1] if getattr(a, 'items', None) else None
                    nf = last is not None and last.discr == 1 and status_code(last.payload[1][0]) == 'not_found'
                    out.append(Claim('%s: the stream ends with NOT_FOUND once the deletion has been processed' % a.name, a.state == 'done' and nf))
                else:
                    r = a.result
                    iserr = a.state == 'done' and isinstance(r, Enum) and r.discr == 1
                    okmsgs = False
                    if a.state == 'done' and isinstance(r, Enum) and r.discr == 0:
                        resp = r.payload[0][0].fields[0]
                        order = ctx.src.struct_fields('PullResponse', 'pubsub_proto_generated')
                        okmsgs = z3.simplify(resp.fields[order.index('received_messages')].n >= 1)
                    out.append(Claim('%s: the blocked Pull is released (error status, or messages it got before the deletion)' % a.name,
                                     iserr or (okmsgs is not False and okmsgs)))
            elif a.state == 'parked':
                out.append(Claim('%s is not left waiting while a message is available (and no wake-up is pending)' % a.name,
                                 z3.Or(f['backlog'].n == 0, z3.BoolVal(res['notify'].permit))))
        out.append(Cover('a consumer was woken by an event', any(a.polls >= 2 for a in consumers)))
        return out

    def model_info(self, p, m, res):
        return {'class': 'consumer-race', 'schedule': [(e[1], e[2]) for e in p.log if e[0] == 'op']}


# ---------------------------------------------------------------------------------------------------------
# Racing control-plane calls on the topic namespace (C10): interleaved at lock-acquisition granularity
# ---------------------------------------------------------------------------------------------------------
from t4 import call_activity, prime
from models_coll import MapM
from models_sync import LockM


class TopicNamespaceRace(Obligation):
    tier = 'T4'

    def __init__(self, ctx, ops):
        """ops: two or three of 'create' / 'delete' / 'get' on names drawn (symbolically, possibly equal) from a pool"""
        self.ops = list(ops)
        self.id = 'C10.f-race-topic-' + '+'.join(ops)
        self.desc = ('TopicManager: %s on symbolic (possibly equal) names, interleaved at every lock acquisition; the observed results and the final map '
                     'equal those of some sequential order of the calls (linearizable per name)' % ' || '.join(ops))
        self.bounds = {'calls': len(ops), 'existing_topics': 2, 'granularity': 'lock acquisition (A4: mutual exclusion)'}
        self.max_paths = 200000

    def body(self, ip, p):
        ctx = ip.ctx
        install_tokens(ctx)
        U = ctx.tok_ufs
        ents = [(p.fresh('t%d_used' % i, 'bool'), p.fresh('t%d_tok' % i)) for i in range(2)]
        p.assume(z3.Implies(z3.And(ents[0][0], ents[1][0]),
                            z3.Or(U['topic_proj'](ents[0][1]) != U['topic_proj'](ents[1][1]), U['topic_id'](ents[0][1]) != U['topic_id'](ents[1][1]))))
        nid = p.fresh('next_id')
        p.assume(z3.And(nid >= 1, nid < (1 << 31) - 8))
        for u, t in ents:
            p.assume(z3.Implies(u, U['topic_iid'](t) <= nid))
        name_of = lambda t: mk(ctx, 'TopicName', project_id=StrTok(U['topic_proj'](t)), topic_id=StrTok(U['topic_id'](t)))
        mp = MapM([(u, name_of(t), ArcTok(t, 'Topic')) for u, t in ents])
        state = Cell(mk_opt(ctx, 'State', 'topics/topic_manager', topics=mp, next_id=S(nid, 'u32')), 'state')
        lock = ArcCell(Cell(LockM('topic_manager.state', state)))
        mgr = Cell(mk(ctx, 'TopicManager', state=lock), 'manager')
        acts, names = [], []
        for i, op in enumerate(self.ops):
            name = sym_name(ctx, p, 'TopicName', 'n%d' % i)
            names.append(name)
            aip = Interp(ctx, p, unroll=6)
            act = Activity('%s%d' % (op, i), aip)
            aip.activity = act
            if op == 'create':
                act.gen = call_activity(act, ctx.fn('TopicManager', 'create_topic'), [Ref(Loc(mgr)), name])
            elif op == 'get':
                act.gen = call_activity(act, ctx.fn('TopicManager', 'get_topic'), [Ref(Loc(mgr)), Ref(Loc(Cell(name)))])
            else:
                delegate = mk(ctx, 'TopicManagerDelegate', state=lock)
                act.gen = call_activity(act, ctx.fn('TopicManagerDelegate', 'delete'), [Ref(Loc(Cell(delegate))), Ref(Loc(Cell(name)))])
            acts.append(act)
        prime(acts)
        run_activities(p, acts)
        return {'ents': ents, 'nid': nid, 'names': names, 'state': state, 'acts': acts, 'name_of': name_of}

    def post(self, ip, p, res):
        ctx = ip.ctx
        acts, names, ents = res['acts'], res['names'], res['ents']
        out = [Claim('every call returned (no deadlock)', all(a.state == 'done' for a in acts))]
        if not all(a.state == 'done' for a in acts):
            return out
        st2 = res['state'].v
        tm = fld(ctx, st2, 'State', 'topics', 'topics/topic_manager')
        nid2 = fld(ctx, st2, 'State', 'next_id', 'topics/topic_manager').t
        name_of = res['name_of']
        n = len(acts)
        in0 = [z3.Or([z3.And(u, eq_val(name_of(t), names[i])) for u, t in ents]) for i in range(n)]
        same = [[eq_val(names[i], names[j]) if i != j else z3.BoolVal(True) for j in range(n)] for i in range(n)]
        obs_ok = []
        for a, op in zip(acts, self.ops):
            r = a.result
            obs_ok.append(None if op == 'delete' else z3.BoolVal(r.discr == 0))
        fin = [tm.found(names[i]) for i in range(n)]
        import itertools
        alts = []
        for order in itertools.permutations(range(n)):
            cur = list(in0)
            conj = []
            created = z3.IntVal(0)
            for k in order:
                op = self.ops[k]
                if op == 'create':
                    conj.append(obs_ok[k] == z3.Not(cur[k]))
                    created = created + z3.If(cur[k], 0, 1)
                    cur = [z3.If(same[k][j], z3.BoolVal(True), cur[j]) for j in range(n)]
                elif op == 'get':
                    conj.append(obs_ok[k] == cur[k])
                else:
                    cur = [z3.If(same[k][j], z3.BoolVal(False), cur[j]) for j in range(n)]
            conj += [fin[j] == cur[j] for j in range(n)]
            conj.append(nid2 >= res['nid'] + created)
            alts.append(z3.And(conj))
        out.append(Claim('results, final map and id counter equal those of some sequential order of the calls', z3.Or(alts)))
        # topics returned by successful creates / gets carry the requested name; two successful creates have distinct ids
        iids = []
        for a, op, nm in zip(acts, self.ops, names):
            if op in ('create', 'get') and a.result.discr == 0:
                tv = read_loc(a.result.payload[0][0].deref_loc(ip))
                out.append(Claim('%s returned a topic with the requested name' % a.name, eq_val(fld(ctx, tv, 'Topic', 'name', 'topics/topic'), nm)))
                if op == 'create':
                    iids.append(fld(ctx, tv, 'Topic', 'internal_id', 'topics/topic').t)
        if len(iids) >= 2:
            out.append(Claim('topics created by racing calls have distinct internal ids', z3.Distinct(iids)))
        out.append(Claim('topics not named by any call are untouched',
                         z3.And([z3.Implies(z3.And(u, z3.Not(z3.Or([eq_val(name_of(t), nm) for nm in names]))),
                                            z3.And(tm.found(name_of(t)), tm.lookup(name_of(t)).tok == t)) for u, t in ents])))
        out.append(Cover('two calls on the same name', z3.Or([same[i][j] for i in range(n) for j in range(i + 1, n)])))
        if self.ops.count('create') >= 2:
            ci = [i for i, o in enumerate(self.ops) if o == 'create']
            out.append(Cover('racing creates of one absent name: exactly one wins',
                             z3.And(same[ci[0]][ci[1]], z3.Not(in0[ci[0]]), obs_ok[ci[0]] != obs_ok[ci[1]])))
        return out

    def model_info(self, p, m, res):
        return {'class': 'namespace-race', 'schedule': [(e[1], e[2]) for e in p.log if e[0] == 'op']}


class SubscriptionNamespaceRace(Obligation):
    tier = 'T4'

    def __init__(self, ctx, ops):
        self.ops = list(ops)
        self.id = 'C10.f-race-subscription-' + '+'.join(ops)
        self.desc = ('SubscriptionManager: %s on symbolic (possibly equal) names, interleaved at every lock acquisition and mailbox send; results and '
                     'final map equal those of some sequential order of the calls; every created subscription was handed to its topic' % ' || '.join(ops))
        self.bounds = {'calls': len(ops), 'existing_subscriptions': 1, 'granularity': 'lock acquisition / mailbox send (A4)'}
        self.max_paths = 200000

    def body(self, ip, p):
        ctx = ip.ctx
        install_tokens(ctx)
        from props.C16 import default_reply
        ctx.on_enqueue = default_reply
        U = ctx.tok_ufs
        topic_tok = p.fresh('topic_tok')
        eu, et = p.fresh('e_used', 'bool'), p.fresh('e_tok')
        name_of = lambda t: mk(ctx, 'SubscriptionName', project_id=StrTok(U['sub_proj'](t)), subscription_id=StrTok(U['sub_id'](t)))
        state = mk_opt(ctx, 'State', 'subscriptions/subscription_manager', subscriptions=MapM([(eu, name_of(et), ArcTok(et, 'Subscription'))]),
                       next_id=S(p.fresh('next_id'), 'u32'))
        self.has_counter = has_field(ctx, 'State', 'next_id', 'subscriptions/subscription_manager')
        nid0 = None
        if self.has_counter:
            nid0 = fld(ctx, state, 'State', 'next_id', 'subscriptions/subscription_manager').t
            p.assume(z3.And(nid0 >= 1, nid0 < (1 << 31) - 8))
            p.assume(z3.Implies(eu, U['sub_iid'](et) <= nid0))
        cell = Cell(state, 'state')
        lock = ArcCell(Cell(LockM('subscription_manager.state', cell)))
        mgr = Cell(mk(ctx, 'SubscriptionManager', state=lock, push_registry=Opaque('push_registry')), 'manager')
        acts, names = [], []
        for i, op in enumerate(self.ops):
            # all calls of the race live in the topic's project (the project rule is decided in C10.a/b)
            nm = mk(ctx, 'SubscriptionName', project_id=StrTok(U['topic_proj'](topic_tok)), subscription_id=StrTok(p.fresh('n%d_id' % i)))
            names.append(nm)
            aip = Interp(ctx, p, unroll=6)
            act = Activity('%s%d' % (op, i), aip)
            if op == 'create':
                info = mk(ctx, 'SubscriptionInfo', name=nm, ack_deadline=S(z3.IntVal(10 * NS), 'Duration'), push_config=Enum('Option', 0, {}))
                coro = run_to_end(aip.call_fn(ctx.fn('SubscriptionManager', 'create_subscription'), [Ref(Loc(mgr)), info, ArcTok(topic_tok, 'Topic')]))
                aip.activity = act
                act.gen = future_activity(act, Loc(Cell(coro, 'create-future')), max_polls=6)
            elif op == 'get':
                aip.activity = act
                act.gen = call_activity(act, ctx.fn('SubscriptionManager', 'get_subscription'), [Ref(Loc(mgr)), Ref(Loc(Cell(nm)))])
            else:
                aip.activity = act
                delegate = mk(ctx, 'SubscriptionManagerDelegate', state=lock)
                act.gen = call_activity(act, ctx.fn('SubscriptionManagerDelegate', 'delete'), [Ref(Loc(Cell(delegate))), Ref(Loc(Cell(nm)))])
            acts.append(act)
        prime(acts)
        run_activities(p, acts)
        return {'e': (eu, et), 'nid': nid0, 'names': names, 'state': cell, 'acts': acts, 'name_of': name_of, 'log': list(p.log)}

    def post(self, ip, p, res):
        ctx = ip.ctx
        acts, names = res['acts'], res['names']
        eu, et = res['e']
        out = [Claim('every call returned (no deadlock)', all(a.state == 'done' for a in acts))]
        if not all(a.state == 'done' for a in acts):
            return out
        st2 = res['state'].v
        sm = fld(ctx, st2, 'State', 'subscriptions', 'subscriptions/subscription_manager')
        name_of = res['name_of']
        n = len(acts)
        in0 = [z3.And(eu, eq_val(name_of(et), names[i])) for i in range(n)]
        same = [[eq_val(names[i], names[j]) if i != j else z3.BoolVal(True) for j in range(n)] for i in range(n)]
        obs_ok = [None if op == 'delete' else z3.BoolVal(a.result.discr == 0) for a, op in zip(acts, self.ops)]
        fin = [sm.found(names[i]) for i in range(n)]
        import itertools
        alts = []
        for order in itertools.permutations(range(n)):
            cur = list(in0)
            conj = []
            created = z3.IntVal(0)
            for k in order:
                op = self.ops[k]
                if op == 'create':
                    conj.append(obs_ok[k] == z3.Not(cur[k]))
                    created = created + z3.If(cur[k], 0, 1)
                    cur = [z3.If(same[k][j], z3.BoolVal(True), cur[j]) for j in range(n)]
                elif op == 'get':
                    conj.append(obs_ok[k] == cur[k])
                else:
                    cur = [z3.If(same[k][j], z3.BoolVal(False), cur[j]) for j in range(n)]
            conj += [fin[j] == cur[j] for j in range(n)]
            if self.has_counter:
                nid2 = fld(ctx, st2, 'State', 'next_id', 'subscriptions/subscription_manager').t
                conj.append(nid2 >= res['nid'] + created)
            alts.append(z3.And(conj))
        out.append(Claim('results, final map and id counter equal those of some sequential order of the calls', z3.Or(alts)))
        iids = []
        n_ok = 0
        for a, op, nm in zip(acts, self.ops, names):
            if op in ('create', 'get') and a.result.discr == 0:
                sv = read_loc(a.result.payload[0][0].deref_loc(ip))
                out.append(Claim('%s returned a subscription with the requested name' % a.name,
                                 eq_val(fld(ctx, sv, 'Subscription', 'name', 'subscriptions/subscription'), nm)))
                if op == 'create':
                    n_ok += 1
                    iids.append(fld(ctx, sv, 'Subscription', 'internal_id', 'subscriptions/subscription').t)
        if len(iids) >= 2:
            out.append(Claim('subscriptions created by racing calls have distinct internal ids', z3.Distinct(iids)))
        enq = [e for e in res['log'] if e[0] == 'enqueue' and e[1] == 'topic']
        out.append(Claim('one attach request reached the topic per successful create', len(enq) == n_ok))
        out.append(Cover('two calls on the same name', z3.Or([same[i][j] for i in range(n) for j in range(i + 1, n)])))
        if self.ops.count('create') >= 2:
            ci = [i for i, o in enumerate(self.ops) if o == 'create']
            out.append(Cover('racing creates of one absent name: exactly one wins',
                             z3.And(same[ci[0]][ci[1]], z3.Not(in0[ci[0]]), obs_ok[ci[0]] != obs_ok[ci[1]])))
        return out

    def model_info(self, p, m, res):
        return {'class': 'namespace-race', 'schedule': [(e[1], e[2]) for e in p.log if e[0] == 'op']}


# ---------------------------------------------------------------------------------------------------------
# C07: a request handed to a subscription terminates - the caller's wrapper future and the real actor task
# (the whole spawned block of SubscriptionActor::start incl. its deletion select!) run as two activities
# ---------------------------------------------------------------------------------------------------------
from models_async import ReceiverM


class RequestTerminates(Obligation):
    tier = 'T4'

    def __init__(self, ctx, method, mkargs, topic_alive=None):
        self.method, self.mkargs, self.topic_alive = method, mkargs, topic_alive
        self.n_out = 0
        self.id = 'C07.d-terminates-Subscription::%s' % method
        self.desc = ('Subscription::%s awaited by a caller while the real subscription actor task (mailbox loop, expiry arm and deletion select!) runs beside it, '
                     'interleaved at every shared operation: in every schedule the call returns; nobody is left waiting for something no one will signal' % method)
        self.bounds = {'callers': 1, 'requests': 1, 'outstanding_before': 0, 'backlog_before': '<= 1', 'select! start index': '0 (thorough: all)', 'mailbox': 'never full', 'timers': 'never fire',
                       'topic': 'alive or gone' if topic_alive is None else ('alive' if topic_alive else 'gone')}
        self.max_paths = 100000
        self.unroll = 8

    def body(self, ip, p):
        ctx = ip.ctx
        install_tokens(ctx)
        from props.C16 import default_reply
        ctx.on_enqueue = default_reply              # the topic's answers (RemoveSubscription) arrive at once
        p.timers_never_fire = True
        p.signals_never_fire = True
        p.deleted_by_oneshot = True
        p.live_oneshots = True
        p.select_in_order = not getattr(self, 'all_select_orders', False)
        st = sym_actor(ctx, p, self.n_out, 1, deleted=False)
        if self.topic_alive is not None:
            p.assume(st.topic_alive == z3.BoolVal(self.topic_alive))
        # the actor task: the async block spawned by SubscriptionActor::start, owning the actor and its mailbox
        body_fn = None
        for name, f in ctx.dump.functions.items():
            if name.endswith('>::start::{closure#0}') and 'subscription_actor' in name:
                body_fn = f
        if body_fn is None:
            raise Unsupported('actor task body not found')
        body_fn.parse()
        rx = ReceiverM([])
        byname = {'receiver': rx, 'actor': st.cell.v}
        nup = max(body_fn.upvar_names) + 1 if body_fn.upvar_names else 0
        upvars = []
        for i in range(nup):
            nm = body_fn.upvar_names.get(i)
            if nm not in byname:
                raise Unsupported('actor task captures %r' % (nm,))
            upvars.append(byname[nm])
        task = Enum('coroutine:' + body_fn.name, 0, {}, upvars)
        aip = Interp(ctx, p, unroll=8)
        actor_act = Activity('actor', aip)
        aip.activity = actor_act
        actor_act.gen = future_activity(actor_act, Loc(Cell(task, 'actor-task')), max_polls=10)
        p.live_mailbox = {'subscription': (rx, actor_act)}
        p.responder_owners = [actor_act]
        # the caller: Subscription::<method> on a handle to this subscription (same observer, same mailbox)
        a = st.cell.v
        order = ctx.src.struct_fields('SubscriptionActor')
        obs_arc = a.fields[order.index('observer')]
        default_sub = ctx.tok_kinds['Subscription']

        def sub_pointee(ip_, tok):
            v = default_sub(ip_, tok)
            o = ctx.src.struct_fields('Subscription', 'subscriptions/subscription')
            f2 = list(v.fields)
            f2[o.index('observer')] = obs_arc
            return Agg(v.name, f2)
        ctx.tok_kinds['Subscription'] = sub_pointee
        cip = Interp(ctx, p, unroll=8)
        caller = Activity('caller', cip)
        selfv = sub_pointee(cip, p.fresh('self_tok'))
        args = [Ref(Loc(Cell(selfv, 'self')))] + self.mkargs(ctx, p)
        coro = run_to_end(cip.call_fn(ctx.fn('Subscription', self.method), args))
        cip.activity = caller
        caller.gen = future_activity(caller, Loc(Cell(coro, 'call')), max_polls=10)
        acts = [caller, actor_act]
        prime(acts)
        run_activities(p, acts)
        ctx.tok_kinds['Subscription'] = default_sub
        return {'st': st, 'caller': caller, 'actor': actor_act, 'rx': rx}

    def post(self, ip, p, res):
        c, a = res['caller'], res['actor']
        out = [Claim('the call returns in every schedule (the caller is not left waiting)', c.state == 'done'),
               Claim('the actor task is waiting for its next request, or has ended', a.state in ('parked', 'done')),
               Claim('the request was taken from the mailbox', len(res['rx'].items) == 0)]
        if c.state == 'done' and isinstance(c.result, Enum) and c.result.name == 'Result':
            out.append(Cover('the call returns Ok', c.result.discr == 0))
        if self.method == 'delete':
            out.append(Cover('the actor task ended (deletion)', a.state == 'done'))
        out.append(Cover('topic gone', z3.Not(res['st'].topic_alive)))
        return out

    def model_info(self, p, m, res):
        return {'class': 'request-never-returns', 'topic_alive': model_value(m, res['st'].topic_alive) if res else None,
                'schedule': [(e[1], e[2]) for e in p.log if e[0] == 'op']}


class TopicRequestTerminates(Obligation):
    tier = 'T4'

    def __init__(self, ctx, method, mkargs):
        self.method, self.mkargs = method, mkargs
        self.id = 'C07.d-terminates-Topic::%s' % method
        self.desc = ('Topic::%s awaited by a caller while the real topic actor task runs beside it, interleaved at every shared operation: in every schedule '
                     'the call returns (subscriptions answer posts at once)' % method)
        self.bounds = {'callers': 1, 'requests': 1, 'attached_subscriptions': '<= 2', 'mailbox': 'never full'}
        self.max_paths = 100000
        self.unroll = 8

    def body(self, ip, p):
        ctx = ip.ctx
        install_tokens(ctx)
        from props.C16 import default_reply
        from props.C11 import sym_topic_actor
        ctx.on_enqueue = default_reply
        p.live_oneshots = True
        p.select_in_order = True
        cell, ents, dele, mstate, own, oname, other_u, reg = sym_topic_actor(ctx, p, 2)
        body_fn = None
        for name, f in ctx.dump.functions.items():
            if name.endswith('>::start::{closure#0}') and 'topic_actor' in name:
                body_fn = f
        if body_fn is None:
            raise Unsupported('topic actor task body not found')
        body_fn.parse()
        rx = ReceiverM([])
        byname = {'receiver': rx, 'actor': cell.v}
        nup = max(body_fn.upvar_names) + 1 if body_fn.upvar_names else 0
        upvars = []
        for i in range(nup):
            nm = body_fn.upvar_names.get(i)
            if nm not in byname:
                raise Unsupported('topic actor task captures %r' % (nm,))
            upvars.append(byname[nm])
        task = Enum('coroutine:' + body_fn.name, 0, {}, upvars)
        aip = Interp(ctx, p, unroll=8)
        actor_act = Activity('actor', aip)
        aip.activity = actor_act
        actor_act.gen = future_activity(actor_act, Loc(Cell(task, 'actor-task')), max_polls=10)
        p.live_mailbox = {'topic': (rx, actor_act)}
        p.responder_owners = [actor_act]
        cip = Interp(ctx, p, unroll=8)
        caller = Activity('caller', cip)
        selfv = ctx.tok_kinds['Topic'](cip, p.fresh('self_tok'))
        args = [Ref(Loc(Cell(selfv, 'self')))] + self.mkargs(ctx, p)
        coro = run_to_end(cip.call_fn(ctx.fn('Topic', self.method, hint='topics/topic.rs'), args))
        cip.activity = caller
        caller.gen = future_activity(caller, Loc(Cell(coro, 'call')), max_polls=10)
        acts = [caller, actor_act]
        prime(acts)
        run_activities(p, acts)
        return {'caller': caller, 'actor': actor_act, 'rx': rx}

    def post(self, ip, p, res):
        c, a = res['caller'], res['actor']
        out = [Claim('the call returns in every schedule (the caller is not left waiting)', c.state == 'done'),
               Claim('the actor task is waiting for its next request, or has ended', a.state in ('parked', 'done')),
               Claim('the request was taken from the mailbox', len(res['rx'].items) == 0)]
        if c.state == 'done' and isinstance(c.result, Enum) and c.result.name == 'Result':
            out.append(Cover('the call returns Ok', c.result.discr == 0))
        return out

    def model_info(self, p, m, res):
        return {'class': 'request-never-returns', 'schedule': [(e[1], e[2]) for e in p.log if e[0] == 'op']}
