"""C17 - malformed requests are rejected cleanly and change nothing."""
import z3
from framework import Obligation, Claim, Cover, model_value, run_async, find_values
from values import *
from interp import run_to_end
from models_coll import Seq, MapM
from models_core import ok, err, variant_of
from models_sync import ArcTok, ArcCell, LockM, StatusV
from models_str import StrTok, Str, sym_str, _tok_len, _tok_parse_ok, _tok_parse_val
from props.common import *
from props.service import *
from props.C16 import default_reply
from props.C18 import str_model

OUTSIDE = ['"the server keeps serving other resources" (needs a running server)', "tonic's own decoding of the protobuf envelope", 'hangs (C07)']
ASSUMPTIONS = ['name parsers are abstracted in the handler obligations (decided byte-level in C17.a and C18)']


class ParserWrapper(Obligation):
    """api::parser wrappers on byte-level strings: never panic; failure is Status::invalid_argument"""

    def __init__(self, ctx, fn_name, cap, ok_check=None):
        self.fn_name, self.cap, self.ok_check = fn_name, cap, ok_check
        self.id = 'C17.a/b-' + fn_name
        self.desc = '%s on every string up to the bound: no panic; Err is Status with code InvalidArgument' % fn_name
        self.bounds = {'max_bytes': cap}
        self.fn = ctx.free_fn(fn_name)

    def body(self, ip, p):
        s = sym_str(p, 's', self.cap)
        r = run_to_end(ip.call_fn(self.fn, [Ref(Loc(Cell(s, 's')))]))
        return s, r

    def post(self, ip, p, res):
        s, r = res
        if variant_of(ip, r, (0, 1)) == 1:
            st = r.payload[1][0]
            return [Claim('error is InvalidArgument', isinstance(st, StatusV) and st.code == 'invalid_argument'), Cover('rejected')]
        out = [Cover('accepted')]
        if self.ok_check:
            out += self.ok_check(ip, p, s, r.payload[0][0])
        return out

    def model_info(self, p, m, res):
        return {'input': str_model(m, res[0])} if res else {}


def ack_ok_check(ip, p, s, v):
    """accepted ack ids are decimal numbers: the value has a decimal rendering of the accepted digits"""
    n = s.normalised()
    ln = n.len_t()
    plus = z3.And(ln > 0, n.bt(0) == 43)
    digits = z3.And([z3.Implies(z3.And(ln > j, z3.Or(j > 0, z3.Not(plus))), z3.And(n.bt(j) >= 48, n.bt(j) <= 57)) for j in range(len(n.b))])
    return [Claim('accepted ack id is [+]digits within u64', z3.And(digits, ln > z3.If(plus, 1, 0), ack_of(ip.ctx, v) >= 0, ack_of(ip.ctx, v) < (1 << 64)))]


class StreamingControl(Obligation):
    id = 'C17.d/e'
    tier = 'T3'
    desc = 'handle_streaming_pull_request: a control message that is rejected (InvalidArgument) has changed nothing - no request reached the subscription before the rejection'
    bounds = {'ack_ids': 2, 'modifications': 2}

    def __init__(self, ctx, n=2):
        install_tokens(ctx)
        self.unroll = n + 4
        self.n = n
        self.bounds = {'ack_ids': n, 'modifications': n}

    def body(self, ip, p):
        ctx = ip.ctx
        ctx.on_enqueue = default_reply
        sub = p.fresh('sub_tok')
        nsub = p.fresh('subscription_field')
        mob, mom = p.fresh('max_outstanding_bytes'), p.fresh('max_outstanding_messages')
        p.assume(z3.And(mob >= -(1 << 63), mob < (1 << 63), mom >= -(1 << 63), mom < (1 << 63)))
        acks = [StrTok(p.fresh('ack%d' % i)) for i in range(self.n)]
        na = p.fresh('n_acks')
        mids = [StrTok(p.fresh('mod_ack%d' % i)) for i in range(self.n)]
        nm = p.fresh('n_mod_ids')
        secs = [S(p.fresh('mod_secs%d' % i), 'i32') for i in range(self.n)]
        ns = p.fresh('n_mod_secs')
        for t in (na, nm, ns):
            p.assume(z3.And(t >= 0, t <= self.n))
        for s_ in secs:
            p.assume(z3.And(s_.t >= -(1 << 31), s_.t < (1 << 31)))
        req = proto(ctx, 'StreamingPullRequest', subscription=StrTok(nsub), ack_ids=Seq(acks, na), modify_deadline_seconds=Seq(secs, ns),
                    modify_deadline_ack_ids=Seq(mids, nm), max_outstanding_messages=S(mom, 'i64'), max_outstanding_bytes=S(mob, 'i64'))
        fn = ctx.free_fn('handle_streaming_pull_request')
        # arguments by parameter type, so that a helper that is handed (say) the receive instant as well is still driven
        args = []
        fn.parse()
        for _, ty in fn.params:
            if 'StreamingPullRequest' in ty:
                args.append(req)
            elif 'Subscription' in ty:
                args.append(ArcTok(sub, 'Subscription'))
            elif ty.endswith('Instant'):
                from models_time import clock_now
                args.append(clock_now(ip))
            else:
                raise Unsupported('handle_streaming_pull_request takes a %s' % ty)
        coro = run_to_end(ip.call_fn(fn, args))
        res, k = run_async(ip, p, coro, budget=0)
        return {'ret': res, 'log': list(p.log), 'acks': acks, 'na': na, 'mids': mids, 'nm': nm, 'secs': secs, 'ns': ns,
                'nsub': nsub, 'mob': mob, 'mom': mom}

    def post(self, ip, p, res):
        r = res['ret']
        log = res['log']
        enq = [e for e in log if e[0] == 'enqueue']
        ev = ip.src.enum_variants('SubscriptionRequest')
        kinds = [ev[e[3].discr][0] for e in enq]
        out = []
        if r.discr == 1:
            st = r.payload[1][0]
            out.append(Claim('rejection is InvalidArgument', isinstance(st, StatusV) and st.code == 'invalid_argument'))
            c = Claim('rejected request changed nothing', len(enq) == 0)
            out.append(c)
            out.append(Cover('rejected: subscription named in a later request', _tok_len(res['nsub']) > 0))
            out.append(Cover('rejected: unequal modification lists', res['ns'] != res['nm']))
            out.append(Cover('rejected: malformed modification ack id', z3.And(res['nm'] == 1, res['ns'] == 1, z3.Not(_tok_parse_ok(res['mids'][0].tok)))))
            out.append(Cover('rejected: negative seconds', z3.And(res['nm'] == 1, res['ns'] == 1, res['secs'][0].t < 0)))
        else:
            out.append(Claim('accepted request: acks first, then modifications, nothing else', kinds in ([], ['AcknowledgeMessages'], ['ModifyDeadline'], ['AcknowledgeMessages', 'ModifyDeadline'])))
            out.append(Claim('accepted only if well-formed',
                             z3.And(_tok_len(res['nsub']) == 0, res['mob'] <= 0, res['mom'] <= 0, res['ns'] == res['nm'])))
            for e in enq:
                req = e[3]
                vname = ev[req.discr][0]
                seq = req.payload[req.discr][0]
                if vname == 'AcknowledgeMessages':
                    out.append(Claim('all ack ids forwarded, in order, unchanged',
                                     z3.And([seq.n == res['na']] + [z3.Implies(seq.n > i, ack_of(ip.ctx, seq.elems[i]) == _tok_parse_val(res['acks'][i].tok))
                                                                   for i in range(len(seq.elems))])))
                else:
                    out.append(Claim('all modifications forwarded', seq.n == res['nm']))
            out.append(Claim('an accepted message that carries acks hands them to the subscription', z3.Implies(res['na'] > 0, z3.BoolVal('AcknowledgeMessages' in kinds))))
            out.append(Claim('an accepted message that carries deadline modifications hands them to the subscription', z3.Implies(res['nm'] > 0, z3.BoolVal('ModifyDeadline' in kinds))))
            out.append(Cover('accepted with acks and modifications', len(enq) == 2))
        return out

    def model_info(self, p, m, res):
        if not res:
            return {}
        return {'n_acks': model_value(m, res['na']), 'n_mod_ids': model_value(m, res['nm']), 'n_mod_secs': model_value(m, res['ns']),
                'mod_secs': [model_value(m, s.t) for s in res['secs']],
                'mod_ack_parses': [model_value(m, _tok_parse_ok(x.tok)) for x in res['mids']]}


def native_replay(ob_id, v):
    if ob_id == 'C17.d/e' and v['label'] == 'rejected request changed nothing':
        return {'judge': 'streaming_bad_modify', 'scenario': 'streaming_bad_modify_after_ack'}
    if ob_id.startswith('C17.f-accepted-names'):
        from props.C18 import native_replay as names_replay
        return names_replay('C18.a-api-' + ob_id.rsplit('-', 1)[1], v)
    return None


def obligations(ctx, cfg):
    q = cfg['tier'] == 'quick'
    cap = 12 if q else 20
    return [ParserWrapper(ctx, 'parse_ack_id', 22 if q else 24, ack_ok_check),
            ParserWrapper(ctx, 'parse_topic_name', 22 if q else 30),
            ParserWrapper(ctx, 'parse_subscription_name', 29 if q else 37),
            ParserWrapper(ctx, 'parse_project_id', cap),
            StreamingControl(ctx, 2 if q else 3), _create_numbers()] + _name_shapes(ctx, q)


def _name_shapes(ctx, q):
    # a malformed resource name must be rejected: what the two name parsers accept is decided byte by byte (the obligations of C18.a)
    from props.C18 import ApiParseShape
    out = []
    for kind in ('topic', 'subscription'):
        ob = ApiParseShape(ctx, kind, (22 if q else 32) + (7 if kind == 'subscription' else 0))
        ob.id = 'C17.f-accepted-names-%s' % kind
        out.append(ob)
    # the other request fields with a validity rule: deadline seconds (negative -> INVALID_ARGUMENT) and paging (size, token)
    from props.C05 import C05a
    from props.C13 import C13parse
    a, b = C05a(ctx), C13parse()
    a.id, b.id = 'C17.g-deadline-seconds', 'C17.g-paging'
    # the handlers that take lists of ack ids: one malformed element rejects the request before any effect
    from props.C10 import Handler, req_ack, req_modack, bad_ack, bad_modack
    h1 = Handler(ctx, 'subscriber', 'acknowledge', req_ack, extra_invalid=bad_ack)
    h2 = Handler(ctx, 'subscriber', 'modify_ack_deadline', req_modack, extra_invalid=bad_modack)
    h1.id, h2.id = 'C17.h-acknowledge-handler', 'C17.h-modify_ack_deadline-handler'
    from props.C14 import PushConfigParse
    pc = PushConfigParse()
    pc.id = 'C17.i-push-endpoint'
    # a CreateSubscription that is refused (subscription and topic in different projects, name taken) leaves nothing behind
    from props.C16 import CreateSubscription
    cs = CreateSubscription(ctx, abandon=False)
    cs.id = 'C17.j-refused-create-changes-nothing'
    # a page token is client input: any offset it decodes to (also one beyond the end) is served without a panic (C13.c's obligations)
    from props.C13 import ListFn
    ls = []
    for which in ('topics', 'subs', 'topicsubs'):
        lf = ListFn(ctx, which, 3 if q else 4)
        lf.id = lf.id.replace('C13.c-', 'C17.k-any-offset-')
        ls.append(lf)
    return out + [a, b, h1, h2, pc, cs] + ls


def _create_numbers():
    # C17.c: out-of-range / negative numbers in CreateSubscription are normalised, never stored raw
    from props.C04 import C04c
    ob = C04c()
    ob.id = 'C17.c-create-subscription-numbers'
    return ob


def kani_harnesses(cfg):
    q = cfg['tier'] == 'quick'
    hs = [{'id': 'K2-ack-id-parse', 'harness': 'k2_ack_id_parse_matches_reference', 'quick': True, 'desc': 'real core::str::parse::<u64> via AckId::parse on every byte string <= 4 bytes: no panic, result == the decimal reference used by the string model'}]
    return [h for h in hs if not q or h.get('quick')]
