"""C02 - acknowledgement is final and affects only that delivery."""
from props.actor_steps import *

OUTSIDE = ['ack racing expiry = mailbox order (A1); both orders are covered as separate steps',
           "other subscriptions' copies: handlers only reach their own actor's state (&mut self) - type-level, not solved"]
ASSUMPTIONS = ['A1: one request at a time per subscription actor, in mailbox order (tokio mpsc + select! glue trusted)']


def obligations(ctx, cfg):
    q = cfg['tier'] == 'quick'
    n, k = (3, 2) if q else (5, 3)
    return [TrackerRemove(ctx, n, k),
            StepAck(ctx, n, 2, k, 'ack-local', 'C02.b'),
            StepPull(ctx, 2, 2, 0, 'ack-local', 'C02.c-pull'),
            StepPost(ctx, 2, 2, 2, 'ack-local', 'C02.c-post'),
            _streaming(ctx), SubscriptionActorHistory(ctx, 'C02.f-history-subscription-actor')]


def _streaming(ctx):
    # C02.e: acks inside a StreamingPull request are forwarded unchanged, in order, and applied before the
    # request's deadline modifications (so an id that is both acked and nacked in one request stays acked)
    from props.C17 import StreamingControl
    ob = StreamingControl(ctx)
    ob.id = 'C02.e'
    return ob
