"""C02 - acknowledgement is final and affects only that delivery."""
from props.actor_steps import *

OUTSIDE = ['ack racing expiry = mailbox order (A1); both orders are covered as separate steps',
           "other subscriptions' copies: handlers only reach their own actor's state (&mut self) - type-level, not solved"]
ASSUMPTIONS = ['A1: one request at a time per subscription actor, in mailbox order (tokio mpsc + select! glue trusted)']


def obligations(ctx, cfg):
    q = cfg['tier'] == 'quick'
    n, k = (3, 2) if q else (5, 3)
    return [TrackerRemove(ctx, n, k),
            StepAck(ctx, n, 2, k, 'ack-local', 'C02.b'),
            StepPull(ctx, 2, 2, 0, 'ack-local', 'C02.c-pull'),
            StepPost(ctx, 2, 2, 2, 'ack-local', 'C02.c-post'),
            _streaming(ctx), SubscriptionActorHistory(ctx, 'C02.f-history-subscription-actor'), _ack_wrapper(ctx)]


def _streaming(ctx):
    # C02.e: acks inside a StreamingPull request are forwarded unchanged, in order, and applied before the
    # request's deadline modifications (so an id that is both acked and nacked in one request stays acked)
    from props.C17 import StreamingControl
    ob = StreamingControl(ctx)
    ob.id = 'C02.e'
    return ob


def _ack_wrapper(ctx):
    # "final once Acknowledge has returned": the wrapper every ack path goes through (unary, streaming, push) reports success only
    # after the actor has answered, i.e. after the delivery is gone - an ack that is merely queued can still be overtaken by the expiry arm
    import props.C16 as C16
    from models_coll import Seq
    if not hasattr(C16, 'PENDING_BUDGET'):
        C16.PENDING_BUDGET = 2
    ob = C16.Wrapper(ctx, 'Subscription', 'acknowledge_messages', lambda ctx_, p: [Seq([ack_id(ctx_, p.fresh('id'))], 1, 'vec')])
    ob.id = 'C02.g-acknowledge-returns-after-the-actor-answered'
    ob.desc = 'Subscription::acknowledge_messages (unary, streaming and push acks all go through it): Ok only after the request was enqueued AND the actor\'s reply arrived'
    return ob
