"""C15 - pull batches respect their size limit and are empty only when allowed."""
from props.actor_steps import *

OUTSIDE = ['"as soon as a message is available" is the schedule part of C06; the 5-minute limit is a tokio timer']
ASSUMPTIONS = []


def obligations(ctx, cfg):
    q = cfg['tier'] == 'quick'
    nb = 3 if q else 7
    from props.C10 import Handler, req_pull
    h = Handler(ctx, 'subscriber', 'pull', req_pull)
    h.id = 'C15.b/d-pull-handler'
    return [StepPull(ctx, 1, nb, 0, 'batch', 'C15.a/c'),
            StepPull(ctx, 0, nb, 0, 'batch', 'C15.a-len64', lazy_len=True), h]


class StreamingLimit(Obligation):
    """StreamingPull: the first request's max_outstanding_messages is the limit of every pull the stream makes"""
    tier = 'T3'
    id = 'C15.e-streaming-limit'
    desc = ('streaming_pull: a positive max_outstanding_messages that is accepted bounds the limit of every PullMessages request the stream makes '
            '(the 64-bit field is not wrapped into 16 bits), and a response carries no more messages than that pull handed out')
    bounds = {'max_outstanding_messages': 'all i64', 'polls of the output stream': 2, 'pull rounds per poll': 3, 'messages handed out per pull': '0..1 (the step obligations C15.a/c bound the batch by the limit)'}
    unroll = 3
    allow_out_of_bound = True      # a stream whose signal keeps firing with nothing to pull loops for ever: cut at the unrolling bound

    def __init__(self, ctx, polls=2, rounds=3):
        install_tokens(ctx)
        self.polls, self.unroll = polls, rounds
        self.bounds = dict(self.bounds, **{'polls of the output stream': polls, 'pull rounds per poll': rounds})

    def body(self, ip, p):
        ctx = ip.ctx
        from props.C10 import typed_reply
        from props.service import proto, sym_managers, start_handler, request
        from framework import run_async, find_values
        from models_async import StreamingM, MergeM, poll_stream_next
        from models_str import StrTok
        from models_core import ok
        from models_coll import Seq
        ctx.on_enqueue = typed_reply
        h = sym_managers(ctx, p)
        p.assume(h['subs'][0][0])
        stok = h['subs'][0][1]
        U = ctx.tok_ufs
        regname = mk(ctx, 'SubscriptionName', project_id=StrTok(U['sub_proj'](stok)), subscription_id=StrTok(U['sub_id'](stok)))
        ip.hooks[r'^parse_subscription_name$'] = lambda ip_, callee, args: (ok(regname),)
        mom = p.fresh('max_outstanding_messages')
        p.assume(z3.And(mom >= -(1 << 63), mom < (1 << 63)))
        first = proto(ctx, 'StreamingPullRequest', subscription=StrTok(p.fresh('name_field')), ack_ids=Seq.empty(), modify_deadline_seconds=Seq.empty(),
                      modify_deadline_ack_ids=Seq.empty(), max_outstanding_messages=S(mom, 'i64'), max_outstanding_bytes=S(p.fresh('mob'), 'i64'))
        fut = start_handler(ip, p, 'subscriber', 'streaming_pull', h['subscriber'], request(StreamingM([first])))
        res, _ = run_async(ip, p, fut, budget=0)
        items = []
        if res.discr == 0:
            out_stream = find_values(res, MergeM)[0].b
            for _ in range(self.polls):
                r = run_to_end(poll_stream_next(ip, out_stream))
                if r.discr == 1:
                    break
                items.append(r.payload[0][0])
        return {'ret': res, 'mom': mom, 'log': list(p.log), 'items': items, 'lens': list(getattr(p, 'pulled_lens', []))}

    def post(self, ip, p, res):
        ctx = ip.ctx
        from props.service import status_code
        from framework import model_value
        mom, log, r = res['mom'], res['log'], res['ret']
        ev = ip.src.enum_variants('SubscriptionRequest')
        enq = [e for e in log if e[0] == 'enqueue' and e[1] == 'subscription' and ev[e[3].discr][0] == 'PullMessages']
        in_range = z3.And(mom >= 0, mom <= 65535)
        out = []
        if r.discr == 1:
            # whether and how out-of-range values are refused is not C15's business (C17 owns rejections); a positive value that fits must be served
            out.append(Claim('a positive limit that fits 16 bits is not refused for its value', z3.Or(z3.Not(z3.And(mom >= 1, mom <= 65535)), z3.BoolVal(status_code(r.payload[1][0]) != 'invalid_argument'))))
            out.append(Cover('rejected: above 65535', mom > 65535))
            out.append(Cover('rejected: negative', mom < 0))
            return out
        out.append(Claim('the stream pulled', len(enq) >= 1))
        out.append(Claim('a positive max_outstanding_messages bounds the limit of every pull the stream makes',
                         z3.Implies(mom > 0, z3.And([e[3].payload[e[3].discr][0].t <= mom for e in enq] or [z3.BoolVal(False)]))))
        order = ctx.src.struct_fields('StreamingPullResponse', 'pubsub_proto_generated')
        nonempty = [n for n in res['lens']]
        got = []
        for it in res['items']:
            if it.discr != 1:
                continue
            item = it.payload[1][0]
            if item.discr != 0:
                continue
            got.append(item.payload[0][0].fields[order.index('received_messages')])
        out.append(Claim('no response without a pull', len(got) <= len(res['lens'])))
        # responses are yielded only for non-empty pulls, in order
        if got and res['lens']:
            out.append(Claim('the first response carries no more messages than a pull of this stream handed out', z3.Or([z3.And(got[0].n <= n, n > 0) for n in res['lens']])))
        out.append(Cover('a response was streamed', len(got) >= 1))
        out.append(Cover('limit 1', mom == 1))
        out.append(Cover('limit 65535', mom == 65535))
        return out

    def model_info(self, p, m, res):
        return {'class': 'streaming-limit', 'max_outstanding_messages': model_value(m, res['mom'])} if res else {}


_obligations_c15 = obligations


def obligations(ctx, cfg):
    q = cfg['tier'] == 'quick'
    return _obligations_c15(ctx, cfg) + [StreamingLimit(ctx, 1, 2) if q else StreamingLimit(ctx, 2, 3)]
