"""C15 - pull batches respect their size limit and are empty only when allowed."""
from props.actor_steps import *

OUTSIDE = ['"as soon as a message is available" is the schedule part of C06; the 5-minute limit is a tokio timer']
ASSUMPTIONS = []


def obligations(ctx, cfg):
    q = cfg['tier'] == 'quick'
    nb = 3 if q else 7
    from props.C10 import Handler, req_pull
    h = Handler(ctx, 'subscriber', 'pull', req_pull)
    h.id = 'C15.b/d-pull-handler'
    return [StepPull(ctx, 1, nb, 0, 'batch', 'C15.a/c'),
            StepPull(ctx, 0, nb, 0, 'batch', 'C15.a-len64', lazy_len=True), h]
