"""C16 - abandoned requests have all-or-nothing effect (deltio's own await points, Tier 3)."""
import z3
from framework import Obligation, Claim, Cover, model_value, run_async, find_values
from values import *
from interp import run_to_end
from models_coll import Seq, MapM
from models_core import ok, err, some, NONE
from models_async import OneshotTx, SenderM
from models_sync import ArcTok, ArcCell, LockM, WeakV
from models_str import StrTok
from props.common import *

OUTSIDE = ['cancellation inside tonic/h2/tower; the streaming-pull generator; drop glue of half-run futures',
           'that an enqueued request is handled to completion by the actor rests on A1 and on C16.b']
ASSUMPTIONS = ['a saturated mailbox is the Pending answer of the modelled mpsc send; dropping the caller future at a Pending return has no effect of its own']

PENDING_BUDGET = 2
MUT = ('enqueue', 'spawn', 'map-mutate', 'joinset.spawn', 'oneshot.send', 'registry.set')


def mutating(log):
    return [e for e in log if e[0] in MUT]


def default_reply(ip, sender, req):
    """reply the actor would eventually send: Ok with an empty/opaque payload"""
    from framework import responder_of
    tx0 = responder_of(req)
    if tx0 is None:
        return
    txs = [tx0]
    p = ip.path
    replies = getattr(p, 'replies', {})
    variant = None
    if isinstance(req, Enum):
        ev = ip.src.enum_variants(req.name)
        variant = ev[req.discr][0] if ev and isinstance(req.discr, int) else None
    val = {'PullMessages': ok(Seq.empty())}.get(variant, ok(Opaque('reply:%s' % variant)))
    if variant in ('AcknowledgeMessages', 'ModifyDeadline', 'Delete', 'AttachSubscription', 'RemoveSubscription'):
        val = ok(UNIT)
    replies[txs[0].cid] = val
    p.replies = replies


class Wrapper(Obligation):
    """request wrappers `Subscription::x` / `Topic::x`: build request, enqueue, await reply"""
    tier = 'T3'

    def __init__(self, ctx, ty, method, mkargs, hint=''):
        self.ty, self.method, self.mkargs, self.hint = ty, method, mkargs, hint
        self.id = 'C16.a-%s::%s' % (ty, method)
        self.desc = '%s::%s abandoned at any await: effects so far are none, or the request is already in the actor mailbox' % (ty, method)
        self.bounds = {'pending_answers': 2}
        install_tokens(ctx)
        ctx.on_enqueue = default_reply

    def body(self, ip, p):
        ctx = ip.ctx
        tok = p.fresh('self_tok')
        selfv = ctx.tok_kinds[self.ty](ip, tok)
        args = [Ref(Loc(Cell(selfv, 'self')))] + self.mkargs(ctx, p)
        fn = ctx.fn(self.ty, self.method, hint=self.hint)
        coro = run_to_end(ip.call_fn(fn, args))
        p.allow_closed = True
        susp = []
        res, k = run_async(ip, p, coro, budget=PENDING_BUDGET, on_suspend=lambda i, log: susp.append(mutating(log)))
        return {'susp': susp, 'res': res, 'log': list(p.log), 'k': k}

    def post(self, ip, p, res):
        out = []
        for i, m in enumerate(res['susp']):
            okc = (len(m) == 0) or (m[-1][0] == 'enqueue' and len(m) == 1)
            out.append(Claim('suspension %d: nothing done, or exactly the request enqueued' % (i + 1), okc))
        m = mutating(res['log'])
        out.append(Claim('at most one mutating effect in total (the enqueue)', len(m) <= 1 and all(e[0] == 'enqueue' for e in m)))
        r = res['res']
        if isinstance(r, Enum) and r.name == 'Result' and r.discr == 0:
            out.append(Claim('Ok only after the request was enqueued', len(m) == 1))
            if self.method != 'post_messages':
                out.append(Claim('Ok only after the reply arrived', any(e[0] == 'reply-received' for e in res['log'])))
        out.append(Cover('%d suspensions' % res['k']))
        if res['k'] == 2:
            out.append(Cover('suspended once before and once after the enqueue' if self.method != 'post_messages' else 'suspended twice'))
        return out


class CreateSubscription(Obligation):
    required_covers = ('created', 'project mismatch', 'already exists')
    id = 'C16.a-create_subscription'
    tier = 'T3'
    desc = 'SubscriptionManager::create_subscription abandoned at any await: no half-created subscription (registered but not handed to its topic)'
    bounds = {'pending_answers': 2, 'existing_subscriptions': 1}

    def __init__(self, ctx, abandon=True, push=False):
        install_tokens(ctx)
        ctx.on_enqueue = default_reply
        self.abandon = abandon
        self.push = push
        if push:
            self.id = 'C16.d-create-push-subscription'
            self.required_covers = ('created',)
            self.desc = ('SubscriptionManager::create_subscription for a subscription with a push endpoint, abandoned at any await or run to its end: whenever the '
                         'subscription is registered in the manager it is also registered for push (a push subscription that exists but is never pushed is a half-created resource)')
        if not abandon:
            self.desc = 'SubscriptionManager::create_subscription run to completion: project mismatch -> error before any effect; name taken -> AlreadyExists, nothing created; else insert under the lock, attach to its topic, Ok after the reply'

    def body(self, ip, p):
        ctx = ip.ctx
        ctx.on_enqueue = default_reply
        U = ctx.tok_ufs
        topic_tok = p.fresh('topic_tok')
        # one existing subscription slot
        eu, et = p.fresh('e_used', 'bool'), p.fresh('e_tok')
        ename = mk(ctx, 'SubscriptionName', project_id=StrTok(U['sub_proj'](et)), subscription_id=StrTok(U['sub_id'](et)))
        state = mk_opt(ctx, 'State', 'subscriptions/subscription_manager', subscriptions=MapM([(eu, ename, ArcTok(et, 'Subscription'))]),
                   next_id=S(p.fresh('next_id'), 'u32'))
        self.has_counter = has_field(ctx, 'State', 'next_id', 'subscriptions/subscription_manager')
        nid0 = None
        if self.has_counter:
            nid0 = fld(ctx, state, 'State', 'next_id', 'subscriptions/subscription_manager').t
            p.assume(z3.And(nid0 >= 1, nid0 < (1 << 31)))
            p.assume(z3.Implies(eu, U['sub_iid'](et) <= nid0))     # manager invariant: ids in use never exceed next_id
        self_cell = Cell(state, 'state')
        lock = ArcCell(Cell(LockM('subscription_manager.state', self_cell)))
        nproj, nid = p.fresh('new_proj'), p.fresh('new_id')
        name = mk(ctx, 'SubscriptionName', project_id=StrTok(nproj), subscription_id=StrTok(nid))
        reg, push_cfg, pstate = Opaque('push_registry'), Enum('Option', 0, {}), None
        if self.push:
            pstate = Cell(mk_single(ctx, 'PushSubscriptionsRegistryState', MapM([])), 'pstate')
            reg = mk(ctx, 'PushSubscriptionsRegistry', state=ArcCell(Cell(LockM('push_registry.state', pstate))))
            cfgv = mk(ctx, 'PushConfig', 'subscriptions/subscription', endpoint=StrTok(p.fresh('endpoint')), oidc_token=Enum('Option', 0, {}), attributes=Enum('Option', 0, {}))
            push_cfg = Enum('Option', 1, {1: (cfgv,)})
        mgr = mk(ctx, 'SubscriptionManager', state=lock, push_registry=reg)
        info = mk(ctx, 'SubscriptionInfo', name=name, ack_deadline=S(z3.IntVal(10 * NS), 'Duration'), push_config=push_cfg)
        fn = ctx.fn('SubscriptionManager', 'create_subscription')
        coro = run_to_end(ip.call_fn(fn, [Ref(Loc(Cell(mgr))), info, ArcTok(topic_tok, 'Topic')]))
        p.allow_closed = True
        susp = []
        snaps = []

        def snap():
            if pstate is None:
                return None
            subs = fld(ctx, self_cell.v, 'State', 'subscriptions', 'subscriptions/subscription_manager')
            return (subs.found(name), fld_single(ctx, pstate.v, 'PushSubscriptionsRegistryState').found(name))

        def on_suspend(i, log):
            susp.append(list(log))
            snaps.append(snap())
        res, k = run_async(ip, p, coro, budget=PENDING_BUDGET, on_suspend=on_suspend)
        snaps.append(snap())
        same_project = U['topic_proj'](topic_tok) == nproj
        exists = z3.And(eu, U['sub_proj'](et) == nproj, U['sub_id'](et) == nid)
        return {'snaps': snaps, 'susp': susp, 'res': res, 'log': list(p.log), 'k': k, 'same_project': same_project, 'exists': exists,
                'state': self_cell, 'next_id': nid0, 'e_used': eu, 'e_iid': U['sub_iid'](et)}

    def post(self, ip, p, res):
        out = []
        if self.push:
            # the name was absent before (a name that is taken belongs to another subscription, whose registration is not this request's business)
            for i, sn in enumerate(res['snaps']):
                where = 'suspension %d' % (i + 1) if i < len(res['snaps']) - 1 else 'the end'
                out.append(Claim('at %s: registered in the manager => registered for push' % where, z3.Implies(z3.Not(res['exists']), z3.Implies(sn[0], sn[1]))))
            if res['res'].discr == 0:
                out.append(Cover('created'))
            return out
        for i, log in enumerate(res['susp']):
            m = mutating(log)
            inserted = any(e[0] == 'map-mutate' for e in m)
            enq = any(e[0] == 'enqueue' for e in m)
            held = [e for e in log if e[0] in ('lock', 'unlock')]
            out.append(Claim('suspension %d: no lock held across the await' % (i + 1), len(held) % 2 == 0))
            if self.abandon:
                out.append(Claim('half-created', (not inserted) or enq))
        r = res['res']
        m = mutating(res['log'])
        if r.discr == 0:
            kinds = [e[0] for e in m if e[0] in ('map-mutate', 'enqueue')]
            out.append(Claim('Ok: insert, then attach enqueued, then reply', kinds == ['map-mutate', 'enqueue'] and
                             any(e[0] == 'reply-received' for e in res['log'])))
            out.append(Claim('Ok implies same project and name was absent', z3.And(res['same_project'], z3.Not(res['exists']))))
            enq = [e for e in m if e[0] == 'enqueue'][0]
            out.append(Claim('attach goes to the topic the subscription was created on', enq[1] == 'topic'))
            newsub = read_loc(r.payload[0][0].deref_loc(ip))
            iid = fld(ip.ctx, newsub, 'Subscription', 'internal_id', 'subscriptions/subscription').t
            if self.has_counter:
                nid2 = fld(ip.ctx, res['state'].v, 'State', 'next_id', 'subscriptions/subscription_manager').t
                out.append(Claim('new internal id is above every id issued so far (> next_id) and covered by the new next_id (creation order = id order, ids never reused)',
                                 z3.And(iid > res['next_id'], nid2 >= iid, z3.Implies(res['e_used'], res['e_iid'] < iid))))
            else:
                out.append(Claim('new internal id is above every id in use (creation order = id order)', z3.Implies(res['e_used'], res['e_iid'] < iid)))
            out.append(Cover('created'))
        else:
            e = r.payload[1][0]
            ev = ip.src.enum_variants('CreateSubscriptionError')
            vname = ev[e.discr][0]
            if vname == 'MustBeInSameProjectAsTopic':
                out.append(Claim('project mismatch: no effect at all', len(m) == 0 and not any(x[0] == 'lock' for x in res['log'])))
                out.append(Claim('project mismatch only when projects differ', z3.Not(res['same_project'])))
                out.append(Cover('project mismatch'))
            elif vname == 'AlreadyExists':
                out.append(Claim('AlreadyExists: nothing created', len(m) == 0))
                out.append(Claim('AlreadyExists only when the name is taken', res['exists']))
                out.append(Cover('already exists'))
        return out

    def model_info(self, p, m, res):
        return {'class': 'half-created-subscription', 'suspensions': res['k'] if res else None}


def _no_args(ctx, p):
    return []


def obligations(ctx, cfg):
    install_tokens(ctx)
    global PENDING_BUDGET
    PENDING_BUDGET = 2 if cfg['tier'] == 'quick' else 3
    mk_ids = lambda ctx_, p: [Seq([ack_id(ctx_, p.fresh('id'))], 1, 'vec')]
    mk_mods = lambda ctx_, p: [Seq([mk(ctx_, 'DeadlineModification', ack_id=ack_id(ctx_, p.fresh('id')), new_deadline=Enum('Option', 0, {}))], 1, 'vec')]
    mk_msgs = lambda ctx_, p: [Seq([ArcTok(p.fresh('m'), 'TopicMessage')], 1, 'vec')]
    mk_u16 = lambda ctx_, p: [S(p.fresh('max'), 'u16')]
    obs = [
        Wrapper(ctx, 'Subscription', 'pull_messages', mk_u16),
        Wrapper(ctx, 'Subscription', 'acknowledge_messages', mk_ids),
        Wrapper(ctx, 'Subscription', 'modify_ack_deadlines', mk_mods),
        Wrapper(ctx, 'Subscription', 'post_messages', mk_msgs),
        Wrapper(ctx, 'Subscription', 'delete', _no_args),
        Wrapper(ctx, 'Subscription', 'get_info', _no_args),
        Wrapper(ctx, 'Topic', 'publish_messages', lambda c, p: [Seq([Opaque('TopicMessage')], 1, 'vec')], hint='topics/topic.rs'),
        Wrapper(ctx, 'Topic', 'attach_subscription', lambda c, p: [ArcTok(p.fresh('s'), 'Subscription')], hint='topics/topic.rs'),
        Wrapper(ctx, 'Topic', 'remove_subscription', lambda c, p: [sym_name(c, p, 'SubscriptionName', 'n')], hint='topics/topic.rs'),
        Wrapper(ctx, 'Topic', 'delete', _no_args, hint='topics/topic.rs'),
        CreateSubscription(ctx),
        CreateSubscription(ctx, push=True),
    ]
    from props.actor_steps import ReceiveDropped
    for v in ('PullMessages', 'AcknowledgeMessages', 'ModifyDeadline', 'GetInfo', 'GetStats', 'Delete'):
        obs.append(ReceiveDropped(ctx, v))
    return obs


def native_replay(ob_id, v):
    if ob_id == 'C16.a-create_subscription' and v['label'] == 'half-created':
        return {'judge': 'half_created', 'scenario': 'create_subscription_abandoned', 'lib': True}
    return None


class TopicReceiveDropped(Obligation):
    """TopicActor::receive(request) when the caller has gone away: the request is still carried out"""
    tier = 'T3'

    def __init__(self, ctx, variant):
        self.variant = variant
        self.id = 'C16.b-topic-receive-' + variant
        self.desc = 'TopicActor::receive(%s) with the reply receiver already dropped: the request is carried out exactly as with a live caller' % variant
        self.bounds = {'attached_subscriptions': 2}
        self.unroll = 6
        install_tokens(ctx)

    def body(self, ip, p):
        ctx = ip.ctx
        from props.C11 import sym_topic_actor
        from props.C08 import sym_topic_message
        ctx.on_enqueue = default_reply
        cell, ents, dele, mstate, own, oname, other_u, reg = sym_topic_actor(ctx, p, 2, deleted=False)
        p.counter += 1
        tx = OneshotTx(p.counter)
        ev = ctx.src.enum_variants('TopicRequest')
        idx = [i for i, (n, _) in enumerate(ev) if n == self.variant][0]
        extra = {}
        if self.variant == 'AttachSubscription':
            t = p.fresh('new_sub_tok')
            extra['tok'] = t
            payload = (ArcTok(t, 'Subscription'), tx)
        elif self.variant == 'RemoveSubscription':
            nm = sym_name(ctx, p, 'SubscriptionName', 'rm')
            extra['name'] = nm
            payload = (nm, tx)
        elif self.variant == 'PublishMessages':
            msg, _, _ = sym_topic_message(ctx, p, 0)
            payload = (Seq([msg], 1), tx)
        else:
            payload = (tx,)
        req = Enum('TopicRequest', idx, {idx: payload})
        p.receiver_dropped = True
        pre_next = fld(ctx, cell.v, 'TopicActor', 'next_message_id').t
        coro = run_to_end(ip.call_fn(ctx.fn('TopicActor', 'receive'), [Ref(Loc(cell), True), req]))
        run_async(ip, p, coro, budget=0)
        return {'cell': cell, 'ents': ents, 'extra': extra, 'log': list(p.log), 'mstate': mstate, 'own': own, 'pre_next': pre_next}

    def post(self, ip, p, res):
        ctx = ip.ctx
        U = ctx.tok_ufs
        a = res['cell'].v
        subs2 = fld(ctx, a, 'TopicActor', 'subscriptions')
        name_of = lambda t: mk(ctx, 'SubscriptionName', project_id=StrTok(U['sub_proj'](t)), subscription_id=StrTok(U['sub_id'](t)))
        out = [Claim('the reply was attempted (handler ran to the end)', any(e[0] == 'oneshot.send-failed' for e in res['log']))]
        if self.variant == 'AttachSubscription':
            out.append(Claim('the subscription is attached although its creator is gone', subs2.found(name_of(res['extra']['tok']))))
        elif self.variant == 'RemoveSubscription':
            out.append(Claim('the subscription is detached', z3.Not(subs2.found(res['extra']['name']))))
        elif self.variant == 'Delete':
            tm = fld(ctx, res['mstate'].v, 'State', 'topics', 'topics/topic_manager')
            out.append(Claim('the topic is deleted and unregistered', z3.And(fld(ctx, a, 'TopicActor', 'deleted').t, subs2.count() == 0, z3.Not(tm.found(res['own'])))))
        elif self.variant == 'PublishMessages':
            enq = [e for e in res['log'] if e[0] == 'enqueue']
            nattached = z3.Sum([z3.If(u, 1, 0) for u, _ in res['ents']])
            out.append(Claim('the message is posted to every attached subscription and the counter advanced',
                             z3.And(nattached == len(enq), fld(ctx, a, 'TopicActor', 'next_message_id').t == res['pre_next'] + 1)))
        out.append(Cover('ran'))
        return out


_obligations_before_topic = obligations


def obligations(ctx, cfg):
    obs = _obligations_before_topic(ctx, cfg)
    for v in ('AttachSubscription', 'RemoveSubscription', 'Delete', 'PublishMessages'):
        obs.append(TopicReceiveDropped(ctx, v))
    return obs


class PullAbandonedAfterWakeup(Obligation):
    id = 'C16.c-pull-abandoned-after-wakeup'
    tier = 'T3'
    desc = ('Pull handler (return_immediately = false) abandoned at any await: once it has consumed a wake-up of the subscription it does not suspend again before '
            'its PullMessages request is in the mailbox - a wake-up taken by a consumer that then goes away would otherwise be lost for everybody '
            '(the mailbox has room: a full mailbox is the known window)')
    bounds = {'suspensions': '<= 2', 'mailbox': 'has room (sends do not pend)', 'subscriptions': 1, 'select! start index': 0}
    unroll = 6
    allow_out_of_bound = True

    def __init__(self, ctx):
        install_tokens(ctx)

    def body(self, ip, p):
        ctx = ip.ctx
        from props.service import sym_managers, proto, request, start_handler
        from props.C10 import typed_reply
        from models_core import ok
        ctx.on_enqueue = typed_reply
        h = sym_managers(ctx, p)
        p.assume(h['subs'][0][0])
        stok = h['subs'][0][1]
        U = ctx.tok_ufs
        regname = mk(ctx, 'SubscriptionName', project_id=StrTok(U['sub_proj'](stok)), subscription_id=StrTok(U['sub_id'](stok)))
        ip.hooks[r'^parse_subscription_name$'] = lambda ip_, callee, args: (ok(regname),)
        mx = p.fresh('max_messages')
        p.assume(z3.And(mx >= 1, mx < (1 << 31)))
        req = proto(ctx, 'PullRequest', subscription=StrTok(p.fresh('name_field')), return_immediately=S(z3.BoolVal(False), 'bool'), max_messages=S(mx, 'i32'))
        fut = start_handler(ip, p, 'subscriber', 'pull', h['subscriber'], request(req))
        p.no_pend = ('mpsc.send',)
        p.select_in_order = True
        susp = []
        try:
            res, k = run_async(ip, p, fut, budget=2, on_suspend=lambda i, log: susp.append(list(log)), max_polls=6)
        except OutOfBound:
            res = None
        return {'susp': susp, 'ret': res}

    def post(self, ip, p, res):
        out = []
        for i, log in enumerate(res['susp']):
            enq = [j for j, e in enumerate(log) if e[0] == 'enqueue']
            woke = [j for j, e in enumerate(log) if e[0] == 'ready' and e[1] == 'notified']
            pending_wake = bool(woke) and (not enq or woke[-1] > enq[-1])
            out.append(Claim('suspension %d: no consumed wake-up is waiting for its pull to be sent' % (i + 1), not pending_wake))
        out.append(Cover('suspended after a wake-up had been consumed and its pull sent',
                         any(any(e[0] == 'ready' and e[1] == 'notified' for e in log) for log in res['susp'])))
        return out


_obligations_c16d = obligations


def obligations(ctx, cfg):
    return _obligations_c16d(ctx, cfg) + [PullAbandonedAfterWakeup(ctx)]
