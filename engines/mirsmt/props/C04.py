"""C04 - unacked deliveries are redelivered at the ack deadline, never earlier."""
import z3
from framework import Obligation, Claim, Cover, model_value
from values import *
from interp import run_to_end
from props.common import *
from props.actor_steps import StepPull, StepExpire, SubscriptionActorExpiryHistory

OUTSIDE = ['tokio timer accuracy (<= 1 ms) and the actor loop re-arming poll_next_expired (A3)']
ASSUMPTIONS = ['EPOCH (lazy static) is not later than any instant passed to AckDeadline::new']


class C04a(Obligation):
    id = 'C04.a'
    desc = 'AckDeadline::new(t) in (t - 1us, t + 100ms), whole microseconds after EPOCH, no overflow/None'
    bounds = {'t': 'EPOCH <= t < EPOCH + 2^63 us'}

    def __init__(self, ctx):
        self.fn = ctx.fn('AckDeadline', 'new')

    def body(self, ip, p):
        t = p.fresh('t')
        E = z3.Int('EPOCH')
        p.assume(z3.And(E >= 0, t >= E, t - E < (1 << 63) * 1000))
        r = run_to_end(ip.call_fn(self.fn, [Ref(Loc(Cell(S(t, 'Instant'))))]))
        return t, r

    def post(self, ip, p, res):
        t, r = res
        d = deadline_of(ip.ctx, r)
        E = z3.Int('EPOCH')
        return [Claim('not-early (us grain)', d > t - 1000),
                Claim('slack < 100ms', d < t + 100_000_000),
                Claim('whole-us', (d - E) % 1000 == 0),
                Claim('exact formula', d == E + ((t - E) / 1000 + ((t - E) / 1000) % 100000) * 1000),
                Cover('sub-us early exists', d < t),
                Cover('late by > 99 ms exists', d > t + 99_000_000)]

    def model_info(self, p, m, res):
        if not res:
            return {}
        return {'t_minus_epoch_ns': model_value(m, res[0] - z3.Int('EPOCH'))}


class C04d(Obligation):
    id = 'C04.d'
    desc = 'take_expired(now): exactly the deliveries with deadline <= now, in (deadline, ack) order; rest untouched; I1/I2 kept; no unwrap_unchecked(None)'

    def __init__(self, ctx, n):
        self.fn = ctx.fn('OutstandingMessageTracker', 'take_expired')
        self.n = n
        self.bounds = {'outstanding_slots': n}
        self.unroll = n + 2

    def body(self, ip, p):
        ctx = ip.ctx
        install_tokens(ctx)
        tr, ds = sym_tracker(ctx, p, self.n)
        now = p.fresh('now')
        p.assume(now >= z3.Int('EPOCH'))
        cell = Cell(tr, 'tracker')
        r = run_to_end(ip.call_fn(self.fn, [Ref(Loc(cell), True), Ref(Loc(Cell(S(now, 'Instant'))))]))
        return ds, now, cell.v, r

    def post(self, ip, p, res):
        ctx = ip.ctx
        ds, now, tr2, ret = res
        out = [Claim('I1/I2 after', tracker_invariant(ctx, tr2))]
        due = [z3.And(d.used, d.dl <= now) for d in ds]
        out.append(Claim('returned count', ret.n == z3.Sum([z3.If(c, 1, 0) for c in due])))
        for i, d in enumerate(ds):
            out.append(Claim('due%d removed / not-due kept' % i,
                             z3.And(z3.Implies(due[i], tracker_lacks(ctx, tr2, d)),
                                    z3.Implies(z3.And(d.used, z3.Not(due[i])), tracker_has(ctx, tr2, d)))))
            # position of d in the returned vector = number of due deliveries ordered before it
            pos = z3.Sum([z3.If(z3.And(due[j], z3.Or(ds[j].dl < d.dl, z3.And(ds[j].dl == d.dl, ds[j].ack < d.ack))), 1, 0)
                          for j in range(len(ds)) if j != i] or [z3.IntVal(0)])
            if ret.elems:
                e = select(ret.elems, pos)
                tok, ack, dl, att = pm_parts(ctx, e)
                out.append(Claim('returned[%d] ordered and intact' % i,
                                 z3.Implies(due[i], z3.And(tok == d.tok, ack == d.ack, dl == d.dl, att == d.att))))
            else:
                out.append(Claim('nothing due when nothing returned', z3.Not(due[i])))
        m2, s2 = tracker_parts(ctx, tr2)
        out.append(Claim('remaining count', m2.count() == z3.Sum([z3.If(z3.And(d.used, z3.Not(c)), 1, 0) for d, c in zip(ds, due)])))
        out += returns_covers(ret)
        if len(ds) >= 2:
            out.append(Cover('one due, one not', z3.And(due[0], ds[1].used, z3.Not(due[1]))))
            out.append(Cover('boundary deadline == now', z3.And(ds[0].used, ds[0].dl == now)))
        return out

    def model_info(self, p, m, res):
        if not res:
            return {}
        ds, now, _, _ = res
        return {'now': model_value(m, now - z3.Int('EPOCH')),
                'deliveries': [{'used': model_value(m, d.used), 'ack': model_value(m, d.ack),
                                'deadline': model_value(m, d.dl - z3.Int('EPOCH')), 'tok': model_value(m, d.tok)} for d in ds]}


from props.actor_steps import _actor_replay
C04d.native_replay = _actor_replay('expire', lambda i: {'now_ns': i['now']})


def obligations(ctx, cfg):
    n = 3 if cfg['tier'] == 'quick' else 5
    return [C04a(ctx), C04d(ctx, n), StepPull(ctx, 2, 3, 0, 'deadline', 'C04.b'), StepExpire(ctx, n, 2, 0, 'deadline', 'C04.e')]


from props.service import *


class C04c(Obligation):
    id = 'C04.c'
    tier = 'T2'
    desc = 'CreateSubscription handler: the ack deadline handed to SubscriptionInfo::new is 10 s for every ack_deadline_seconds <= 10 (incl. negative) and the requested value otherwise (all i32)'
    bounds = {'ack_deadline_seconds': 'all i32'}

    def body(self, ip, p):
        ctx = ip.ctx
        install_tokens(ctx)
        h = sym_managers(ctx, p)
        abstract_name_parsers(ip, p)
        ads = p.fresh('ack_deadline_seconds')
        p.assume(z3.And(ads >= -(1 << 31), ads < (1 << 31)))
        req = request(proto(ctx, 'Subscription', name=StrTok(p.fresh('name')), topic=StrTok(p.fresh('topic')),
                            push_config=Enum('Option', 0, {}), ack_deadline_seconds=S(ads, 'i32')))
        seen = observe(ip, r'SubscriptionInfo::new$')
        fut = start_handler(ip, p, 'subscriber', 'create_subscription', h['subscriber'], req)
        try:
            res, k = run_async(ip, p, fut, budget=0)
            return ads, None, res
        except StopExec as e:
            return ads, e.data, None

    def post(self, ip, p, res):
        ads, args, out = res
        if args is None:
            # rejected before SubscriptionInfo::new (a name did not parse)
            return [Claim('early return is an error', out.discr == 1), Cover('name rejected')]
        dur = args[1]
        return [Claim('effective ack deadline == max(10, requested) s', dur.t == z3.If(ads <= 10, 10, ads) * NS),
                Cover('negative', ads < 0), Cover('exactly 10', ads == 10), Cover('11', ads == 11), Cover('i32::MAX', ads == (1 << 31) - 1),
                Cover('i32::MIN', ads == -(1 << 31))]

    def model_info(self, p, m, res):
        return {'ack_deadline_seconds': model_value(m, res[0])} if res else {}


_old_obligations = obligations


def obligations(ctx, cfg):
    from props.actor_steps import ActorLoop
    return _old_obligations(ctx, cfg) + [C04c(), ActorLoop(ctx, 2, 1, 1, False, 'deadline', 'C04.f-actor-loop'),
                                         # a Pull handled by the loop while the expiry timer was already armed for an older,
                                         # possibly later deadline: afterwards the timer is armed for the earliest deadline again
                                         ActorLoop(ctx, 1, 1, 1, True, 'deadline', 'C04.f-actor-loop-pull', request='pull'),
                                         SubscriptionActorExpiryHistory(ctx, 'C04.g-history-expiry')]


def kani_harnesses(cfg):
    if cfg['tier'] == 'quick':
        return []
    return [{'id': 'K7-ack-deadline-real-std', 'harness': 'k7_ack_deadline_window', 'timeout_s': 1800,
             'desc': 'AckDeadline::new on the real std/tokio Instant and Duration (arbitrary clock, 4 s window after EPOCH): never >= 1 us early, < 100 ms late - cross-check of the integer-mode time contracts'}]


_obligations_c04b = obligations


def obligations(ctx, cfg):
    # PulledMessage::modify_deadline / the tracker's modify: an extension moves the expiry, it does not add a second one
    from props.C05 import TrackerModify
    q = cfg['tier'] == 'quick'
    tm = TrackerModify(ctx, 2 if q else 3, 2)
    tm.id = 'C04.h-extension-moves-the-expiry'
    return _obligations_c04b(ctx, cfg) + [tm]
