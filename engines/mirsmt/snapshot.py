"""Snapshot of /repo's working tree + MIR dump (regenerated whenever the tree changes)."""
import hashlib
import os
import subprocess
import sys
import time
import fcntl

REPO = os.environ.get('VERIF_REPO') or '/repo'          # an empty value means the default, never '/'
VERIF = os.path.dirname(os.path.dirname(os.path.dirname(os.path.abspath(__file__))))
CACHE = os.path.join(VERIF, '.cache')
# scratch copies of the tree are per checkout of /verif (like CACHE and its lock files): two checkouts running at the
# same time (e.g. a `vp run` worktree next to /verif) must never share a scratch source directory
SCRATCH = os.environ.get('VERIF_SCRATCH') or ('/var/tmp/deltio-verif' if VERIF == '/verif' else
                                             '/var/tmp/deltio-verif-' + hashlib.sha1(VERIF.encode()).hexdigest()[:10])
TRACKED = ('src', 'proto', 'build.rs', 'Cargo.toml', 'Cargo.lock')


def tree_hash(root=REPO):
    h = hashlib.sha1()
    for item in TRACKED:
        p = os.path.join(root, item)
        if os.path.isfile(p):
            h.update(item.encode())
            h.update(open(p, 'rb').read())
        else:
            for dp, dn, fns in os.walk(p):
                dn.sort()
                for fn in sorted(fns):
                    fp = os.path.join(dp, fn)
                    h.update(os.path.relpath(fp, root).encode())
                    h.update(open(fp, 'rb').read())
    return h.hexdigest()[:16]


class Lock:
    def __init__(self, name='lock'):
        os.makedirs(CACHE, exist_ok=True)
        self.path = os.path.join(CACHE, name)

    def __enter__(self):
        self.fh = open(self.path, 'w')
        fcntl.flock(self.fh, fcntl.LOCK_EX)
        return self

    def __exit__(self, *a):
        fcntl.flock(self.fh, fcntl.LOCK_UN)
        self.fh.close()


def snapshot_src(sub='replay-src'):
    """rsync /repo's working tree (without target/.git) to a scratch dir; returns path.  The MIR dump and the
    native replay use different copies (they run under different locks).
    Content-based (--checksum) and without preserving mtimes: a file whose content changed gets the time of the copy,
    so cargo's mtime-based fingerprints never take a stale build of a *different* content for fresh (restoring an
    older file with its old mtime would otherwise do exactly that)."""
    dst = os.path.join(SCRATCH, sub)
    os.makedirs(dst, exist_ok=True)
    subprocess.run(['rsync', '-rlpgoD', '--checksum', '--delete', '--exclude', 'target', '--exclude', '.git',
                    REPO + '/', dst + '/'], check=True)
    force_rebuild_if_changed(dst)
    return dst


def force_rebuild_if_changed(dst):
    """belt and braces for cargo's mtime fingerprints: when the content of the tree differs from the one this scratch
    copy held last time, every source file gets a fresh mtime"""
    h = tree_hash()
    stamp = dst.rstrip('/') + '.treehash'
    old = open(stamp).read().strip() if os.path.exists(stamp) else ''
    if old != h:
        for root, _, files in os.walk(dst):
            if os.sep + 'target' in root:
                continue
            for f in files:
                if f.endswith(('.rs', '.toml', '.proto', '.lock')):
                    os.utime(os.path.join(root, f))
        with open(stamp, 'w') as f:
            f.write(h)


def mir_dump():
    """returns (mir_path, src_root, info).  The dump is keyed by the content hash of the
    tree, so an edit in /repo always produces a new dump."""
    with Lock('mir.lock'):
        h = tree_hash()
        mdir = os.path.join(CACHE, 'mirdump')
        os.makedirs(mdir, exist_ok=True)
        mir = os.path.join(mdir, h + '.mir')
        srcdir = os.path.join(mdir, h + '.src')
        info = {'tree_hash': h, 'cached': True, 'dump_s': 0.0}
        if os.path.exists(mir) and os.path.isdir(srcdir):
            return mir, srcdir, info
        t0 = time.time()
        src = snapshot_src('mir-src')
        env = dict(os.environ)
        env['CARGO_TARGET_DIR'] = os.path.join(CACHE, 'target-mir')
        env['CARGO_NET_OFFLINE'] = 'true'
        # touch lib.rs so that rustc re-emits the MIR even if cargo thinks it is fresh
        os.utime(os.path.join(src, 'src', 'lib.rs'))
        tmp = mir + '.tmp'
        with open(tmp, 'w') as out:
            r = subprocess.run(['cargo', '+nightly', 'rustc', '--offline', '--lib', '--', '-Zunpretty=mir',
                                '-C', 'debug-assertions=off', '-C', 'overflow-checks=on'],
                               cwd=src, env=env, stdout=out, stderr=subprocess.PIPE, text=True)
        if r.returncode != 0 or os.path.getsize(tmp) < 1000:
            sys.stderr.write(r.stderr[-4000:])
            raise RuntimeError('MIR dump failed (the tree does not compile?)')
        os.rename(tmp, mir)
        # keep the sources the dump was made from (impl spans / struct layouts)
        subprocess.run(['rsync', '-a', '--delete', os.path.join(src, 'src'), srcdir + '/'], check=True)
        # the prost-generated message structs (field order of the protocol types)
        import glob
        gens = sorted(glob.glob(os.path.join(env['CARGO_TARGET_DIR'], 'debug', 'build', 'deltio-*', 'out', 'google.pubsub.v1.rs')),
                      key=os.path.getmtime)
        if gens:
            os.makedirs(os.path.join(srcdir, 'src', 'pubsub_proto_generated'), exist_ok=True)
            subprocess.run(['cp', gens[-1], os.path.join(srcdir, 'src', 'pubsub_proto_generated', 'google_pubsub_v1.rs')], check=True)
        # prune old dumps
        ents = sorted((os.path.getmtime(os.path.join(mdir, f)), f) for f in os.listdir(mdir) if f.endswith('.mir'))
        for _, f in ents[:-40]:      # generous: a concurrent check may still be reading an older dump
            os.unlink(os.path.join(mdir, f))
            subprocess.run(['rm', '-rf', os.path.join(mdir, f[:-4] + '.src')])
        info['cached'] = False
        info['dump_s'] = round(time.time() - t0, 1)
        return mir, srcdir, info
