"""Parser for rustc's `-Zunpretty=mir` text dump (nightly 1.97).

Only what the interpreter needs: function headers, local declarations, basic
blocks with statements and terminators, `const`/`static` items, allocations.
Bodies are parsed lazily (the dump is ~120k lines; only a few hundred
functions are ever interpreted).
"""
import re
import hashlib

# ---------------------------------------------------------------- utilities

OPEN = {'(': ')', '[': ']', '{': '}', '<': '>'}
CLOSE = {v: k for k, v in OPEN.items()}


def split_top(s, sep=','):
    """Split s on `sep` at nesting depth 0 (parens, brackets, braces, angles).
    `->` and `=>` are not treated as closing angles; string literals are
    skipped."""
    out, depth, cur, i, n = [], 0, [], 0, len(s)
    while i < n:
        c = s[i]
        if c == '"':
            j = i + 1
            while j < n and s[j] != '"':
                if s[j] == '\\':
                    j += 1
                j += 1
            cur.append(s[i:j + 1])
            i = j + 1
            continue
        if c == "'" and i + 2 < n and (s[i + 2] == "'" or (s[i + 1] == '\\' and s.find("'", i + 2) != -1 and s.find("'", i + 2) - i <= 8)):
            # char literal 'x' or '\n' / '\u{..}'
            j = s.find("'", i + 2) if s[i + 1] == '\\' else i + 2
            cur.append(s[i:j + 1])
            i = j + 1
            continue
        if c in '([{':
            depth += 1
        elif c in ')]}':
            depth -= 1
        elif c == '<':
            depth += 1
        elif c == '>':
            if i > 0 and s[i - 1] in '-=':
                pass
            else:
                depth -= 1
        if c == sep and depth == 0:
            out.append(''.join(cur).strip())
            cur = []
        else:
            cur.append(c)
        i += 1
    tail = ''.join(cur).strip()
    if tail:
        out.append(tail)
    return out


def match_close(s, i):
    """s[i] is an opening bracket; return index of its matching close."""
    depth = 0
    n = len(s)
    j = i
    while j < n:
        c = s[j]
        if c == '"':
            j += 1
            while j < n and s[j] != '"':
                if s[j] == '\\':
                    j += 1
                j += 1
        elif c in '([{':
            depth += 1
        elif c in ')]}':
            depth -= 1
            if depth == 0:
                return j
        elif c == '<' and s[i] == '<':
            depth += 1
        elif c == '>' and s[i] == '<' and not (j > 0 and s[j - 1] in '-='):
            depth -= 1
            if depth == 0:
                return j
        j += 1
    raise ValueError('unbalanced: ' + s)


def strip_generics(path):
    """Remove every `::<...>` / `<...>` generic argument list from a path,
    except a leading `<T as Trait>` qualified-self."""
    out, depth, i, n = [], 0, 0, len(path)
    while i < n:
        c = path[i]
        if c == '<':
            j = match_close(path, i)
            # drop a preceding '::'
            if out and ''.join(out).endswith('::'):
                out = list(''.join(out)[:-2])
            i = j + 1
            continue
        out.append(c)
        i += 1
    return ''.join(out)


# ---------------------------------------------------------------- AST

class Place:
    __slots__ = ('local', 'proj')

    def __init__(self, local, proj=()):
        self.local = local
        self.proj = tuple(proj)

    def __repr__(self):
        return 'Place(_%d%s)' % (self.local, ''.join('.' + str(p) for p in self.proj))


# projection elements: ('deref',), ('field', idx, ty), ('downcast', name_or_idx),
# ('index', local), ('constindex', i, n, from_end), ('subslice', a, b, from_end)

def parse_place(s):
    s = s.strip()
    p, rest = _parse_place(s, 0)
    if rest != len(s):
        raise ValueError('trailing in place: %r' % s)
    return p


def _parse_place(s, i):
    if s[i] == '_':
        m = re.match(r'_(\d+)', s[i:])
        local = int(m.group(1))
        i += m.end()
        proj = []
    elif s[i] == '(':
        j = match_close(s, i)
        inner = s[i + 1:j]
        if inner.startswith('*'):
            base, k = _parse_place(inner, 1)
            if k != len(inner):
                raise ValueError('deref place: %r' % inner)
            local, proj = base.local, list(base.proj) + [('deref',)]
        else:
            base, k = _parse_place(inner, 0)
            rest = inner[k:]
            if rest.startswith(' as '):
                v = rest[4:].strip()
                m = re.match(r'variant#(\d+)$', v)
                proj = list(base.proj) + [('downcast', int(m.group(1)) if m else v)]
            elif rest.startswith('.'):
                m = re.match(r'\.(\d+): (.*)$', rest, re.S)
                proj = list(base.proj) + [('field', int(m.group(1)), m.group(2))]
            else:
                raise ValueError('place: %r' % s)
            local = base.local
        i = j + 1
    else:
        raise ValueError('place: %r' % s[i:])
    # suffix index projections
    while i < len(s) and s[i] == '[':
        j = match_close(s, i)
        inner = s[i + 1:j]
        m = re.match(r'_(\d+)$', inner)
        if m:
            proj.append(('index', int(m.group(1))))
        else:
            m = re.match(r'(-?)(\d+) of (\d+)$', inner)
            if m:
                proj.append(('constindex', int(m.group(2)), int(m.group(3)), m.group(1) == '-'))
            else:
                m = re.match(r'(\d+)\.\.(-?)(\d*)$', inner) or re.match(r'(\d+):(-?)(\d*)$', inner)
                if not m:
                    raise ValueError('index proj: %r' % inner)
                proj.append(('subslice', int(m.group(1)), int(m.group(3) or 0), m.group(2) == '-'))
        i = j + 1
    return Place(local, proj), i


class Operand:
    __slots__ = ('kind', 'place', 'const')

    def __init__(self, kind, place=None, const=None):
        self.kind = kind  # 'copy' | 'move' | 'const'
        self.place = place
        self.const = const

    def __repr__(self):
        return 'Op(%s %s)' % (self.kind, self.place if self.place else self.const)


def parse_operand(s):
    s = s.strip()
    if s.startswith('no_retag '):
        s = s[len('no_retag '):]
    if s.startswith('copy '):
        return Operand('copy', parse_place(s[5:]))
    if s.startswith('move '):
        return Operand('move', parse_place(s[5:]))
    if s.startswith('const '):
        return Operand('const', const=s[6:].strip())
    if re.match(r'^[A-Za-z_<][\w:<>, &\[\]\(\)\'{}#-]*$', s) and not s.startswith('_'):
        # a bare function item used as a value (e.g. `parse_topic_message`)
        return Operand('const', const='fn ' + s)
    raise ValueError('operand: %r' % s)


BINOPS = {'Add', 'Sub', 'Mul', 'Div', 'Rem', 'Eq', 'Ne', 'Lt', 'Le', 'Gt', 'Ge',
          'BitAnd', 'BitOr', 'BitXor', 'Shl', 'Shr', 'AddWithOverflow',
          'SubWithOverflow', 'MulWithOverflow', 'AddUnchecked', 'SubUnchecked',
          'MulUnchecked', 'ShlUnchecked', 'ShrUnchecked', 'Offset', 'Cmp'}
UNOPS = {'Not', 'Neg', 'PtrMetadata'}


class Rvalue:
    __slots__ = ('kind', 'args', 'extra')

    def __init__(self, kind, args=(), extra=None):
        self.kind = kind
        self.args = args
        self.extra = extra

    def __repr__(self):
        return 'Rv(%s %r %r)' % (self.kind, self.args, self.extra)


def parse_rvalue(s):
    s = s.strip()
    if s.startswith('&raw const ') or s.startswith('&raw mut '):
        mut = s.startswith('&raw mut ')
        return Rvalue('ref', (parse_place(s.split(' ', 2)[2]),), 'raw_mut' if mut else 'raw')
    if s.startswith('&mut '):
        return Rvalue('ref', (parse_place(s[5:]),), 'mut')
    if s.startswith('&') and not s.startswith('&&'):
        body = s[1:].strip()
        # `&fake shallow` etc. do not occur after optimisation
        return Rvalue('ref', (parse_place(body),), 'shared')
    if s.startswith(('copy ', 'move ', 'const ', 'no_retag ')):
        # could be `OP as T (Kind)`
        m = re.match(r'^(.*) as (.*) \((\w+(?:\([^)]*\))?)\)$', s, re.S)
        if m and not s.startswith('const ') or (m and s.startswith('const ') and m.group(3)[0].isupper()):
            try:
                op = parse_operand(m.group(1))
                return Rvalue('cast', (op,), (m.group(2).strip(), m.group(3)))
            except ValueError:
                pass
        return Rvalue('use', (parse_operand(s),))
    m = re.match(r'^(\w+)\((.*)\)$', s, re.S)
    if m and m.group(1) in BINOPS:
        a, b = split_top(m.group(2))
        return Rvalue('binop', (parse_operand(a), parse_operand(b)), m.group(1))
    if m and m.group(1) in UNOPS:
        return Rvalue('unop', (parse_operand(m.group(2)),), m.group(1))
    if m and m.group(1) == 'discriminant':
        return Rvalue('discriminant', (parse_place(m.group(2)),))
    if m and m.group(1) == 'Len':
        return Rvalue('len', (parse_place(m.group(2)),))
    if m and m.group(1) == 'CopyForDeref':
        return Rvalue('use', (Operand('copy', parse_place(m.group(2))),))
    if s.startswith('(') and match_close(s, 0) == len(s) - 1:
        inner = s[1:-1].strip()
        ops = [parse_operand(x) for x in split_top(inner)] if inner else []
        return Rvalue('tuple', tuple(ops))
    if s.startswith('['):
        inner = s[1:-1]
        parts = split_top(inner, ';')
        if len(parts) == 2:
            return Rvalue('repeat', (parse_operand(parts[0]),), parts[1].strip())
        ops = [parse_operand(x) for x in split_top(inner)] if inner.strip() else []
        return Rvalue('array', tuple(ops))
    # aggregates: `Path { f: OP, .. }`, `Path(OP, ..)`, `Path` / closures
    if s.startswith(('{closure@', '{coroutine@', '{async ')) and match_close(s, 0) == len(s) - 1:
        return Rvalue('adt', (), (s, ()))
    if s.endswith('}'):
        # find the top-level '{' that starts the field list: last '{' at depth 0 scanning
        i = _agg_brace_start(s)
        head = s[:i].strip()
        inner = s[i + 1:-1].strip()
        fields = []
        for part in split_top(inner):
            k, v = part.split(':', 1)
            fields.append((k.strip(), parse_operand(v)))
        return Rvalue('adt', tuple(o for _, o in fields), (head, tuple(k for k, _ in fields)))
    if s.endswith(')'):
        i = _agg_paren_start(s)
        head = s[:i].strip()
        inner = s[i + 1:-1].strip()
        ops = [parse_operand(x) for x in split_top(inner)] if inner else []
        return Rvalue('adt', tuple(ops), (head, None))
    # unit-like variant or struct
    return Rvalue('adt', (), (s, None))


def _agg_brace_start(s):
    # the aggregate's own brace is the last '{' whose matching '}' is the final char
    depth = 0
    for i in range(len(s) - 1, -1, -1):
        c = s[i]
        if c == '}':
            depth += 1
        elif c == '{':
            depth -= 1
            if depth == 0:
                return i
    raise ValueError(s)


def _agg_paren_start(s):
    depth = 0
    for i in range(len(s) - 1, -1, -1):
        c = s[i]
        if c == ')':
            depth += 1
        elif c == '(':
            depth -= 1
            if depth == 0:
                return i
    raise ValueError(s)


class Stmt:
    __slots__ = ('kind', 'place', 'rv', 'extra', 'text')

    def __init__(self, kind, place=None, rv=None, extra=None, text=''):
        self.kind = kind
        self.place = place
        self.rv = rv
        self.extra = extra
        self.text = text


class Term:
    __slots__ = ('kind', 'args', 'targets', 'dest', 'callee', 'text', 'unwind')

    def __init__(self, kind, **kw):
        self.kind = kind
        self.args = kw.get('args')
        self.targets = kw.get('targets')
        self.dest = kw.get('dest')
        self.callee = kw.get('callee')
        self.text = kw.get('text', '')
        self.unwind = kw.get('unwind')


def _bb(s):
    return int(s.strip()[2:])


def parse_targets(s):
    """`[return: bb1, unwind continue]` or `unwind continue` -> dict"""
    s = s.strip()
    out = {}
    if s.startswith('['):
        for part in split_top(s[1:-1]):
            if ':' in part:
                k, v = part.split(':', 1)
                v = v.strip()
                out[k.strip()] = _bb(v) if v.startswith('bb') else v
            else:
                out['unwind'] = part.replace('unwind', '').strip()
    elif s.startswith('unwind'):
        out['unwind'] = s
    elif s.startswith('bb'):
        out['return'] = _bb(s)
    return out


def parse_line(line):
    """Parse one statement/terminator line (without trailing ';')."""
    s = line.strip()
    if s.endswith(';'):
        s = s[:-1]
    if s in ('return', 'resume', 'unreachable', 'nop', 'coroutine_drop'):
        return Term(s, text=s) if s != 'nop' else Stmt('nop', text=s)
    if s.startswith('goto -> '):
        return Term('goto', targets={'return': _bb(s[8:])}, text=s)
    if s.startswith('switchInt('):
        j = match_close(s, 9)
        op = parse_operand(s[10:j])
        rest = s[j + 1:].strip()
        assert rest.startswith('->'), s
        tg = []
        for part in split_top(rest[2:].strip()[1:-1]):
            k, v = part.split(':')
            k = k.strip()
            tg.append((None if k == 'otherwise' else int(k), _bb(v)))
        return Term('switch', args=(op,), targets=tg, text=s)
    if s.startswith('drop('):
        j = match_close(s, 4)
        pl = parse_place(s[5:j])
        rest = s[j + 1:].strip()
        return Term('drop', args=(pl,), targets=parse_targets(rest[2:]), text=s)
    if s.startswith('assert('):
        j = match_close(s, 6)
        parts = split_top(s[7:j])
        cond = parts[0].strip()
        neg = cond.startswith('!')
        if neg:
            cond = cond[1:]
        rest = s[j + 1:].strip()
        return Term('assert', args=(parse_operand(cond), neg, parts[1] if len(parts) > 1 else ''),
                    targets=parse_targets(rest[2:]), text=s)
    if s.startswith(('StorageLive(', 'StorageDead(', 'Deinit(', 'Retag(', 'PlaceMention(',
                     'AscribeUserType(', 'Coverage', 'FakeRead(', 'ConstEvalCounter', 'BackwardIncompatibleDropHint')):
        return Stmt('nop', text=s)
    m = re.match(r'^discriminant\((.*)\) = (\d+)$', s)
    if m:
        return Stmt('setdiscr', place=parse_place(m.group(1)), extra=int(m.group(2)), text=s)
    if s.startswith('assume('):
        return Stmt('assume', rv=parse_operand(s[7:-1]), text=s)
    # call terminator or assignment.  A call has ` -> ` at top level at the end
    # (`-> [return: bbN, unwind ..]` / `-> unwind ..`), assignments do not.
    idx = _find_top_arrow(s)
    if idx is not None:
        head, tail = s[:idx].strip(), s[idx + 2:].strip()
        targets = parse_targets(tail)
        dest = None
        eq = _find_top_eq(head)
        if eq is not None:
            dest = parse_place(head[:eq])
            head = head[eq + 3:].strip()
        # callee(args)
        i = _agg_paren_start(head)
        callee = head[:i].strip()
        inner = head[i + 1:-1].strip()
        args = [parse_operand(x) for x in split_top(inner)] if inner else []
        return Term('call', callee=callee, args=tuple(args), dest=dest, targets=targets, text=s)
    eq = _find_top_eq(s)
    if eq is None:
        raise ValueError('cannot parse statement: %r' % s)
    return Stmt('assign', place=parse_place(s[:eq]), rv=parse_rvalue(s[eq + 3:]), text=s)


def _find_top_arrow(s):
    """index of the last top-level ' -> ' that introduces call targets"""
    m = None
    for mm in re.finditer(r' -> (\[|unwind|bb)', s):
        m = mm
    if m is None:
        return None
    # must be at depth 0 w.r.t. parens
    depth = 0
    instr = False
    i = 0
    while i < m.start():
        c = s[i]
        if c == '"':
            i += 1
            while i < m.start() and s[i] != '"':
                if s[i] == '\\':
                    i += 1
                i += 1
        elif c in '([{':
            depth += 1
        elif c in ')]}':
            depth -= 1
        i += 1
    if depth != 0:
        return None
    return m.start() + 1


def _find_top_eq(s):
    depth = 0
    i = 0
    n = len(s)
    while i < n:
        c = s[i]
        if c in '([{':
            depth += 1
        elif c in ')]}':
            depth -= 1
        elif c == '"':
            return None
        elif depth == 0 and s.startswith(' = ', i):
            return i
        i += 1
    return None


def _split_name_type(s):
    """`NAME: TYPE` where NAME may contain `<impl at f:1:2: 3:4>`"""
    depth = 0
    for i, c in enumerate(s):
        if c == '<':
            depth += 1
        elif c == '>' and not (i > 0 and s[i - 1] in '-='):
            depth -= 1
        elif depth == 0 and s.startswith(': ', i):
            return s[:i], s[i + 2:]
    return s, ''


class Function:
    def __init__(self, name, header, lines, kind='fn'):
        self.name = name          # full printed name (with <impl at ..>)
        self.header = header
        self.lines = lines
        self.kind = kind
        self._parsed = False
        self.params = []          # [(local, type)]
        self.ret = None
        self.locals = {}          # local -> type string
        self.debug = {}           # local -> source name
        self.upvar_names = {}     # coroutine/closure upvar index -> source name
        self.blocks = {}          # bb -> (stmts, term)
        self.cleanup = set()

    @property
    def text_hash(self):
        return hashlib.sha1('\n'.join(self.lines).encode()).hexdigest()[:12]

    def parse(self):
        if self._parsed:
            return self
        self._parsed = True
        h = self.header
        if self.kind == 'fn':
            i = h.index('(', len('fn ') + len(self.name))
            j = match_close(h, i)
            ps = h[i + 1:j]
            for p in split_top(ps):
                m = re.match(r'_(\d+): (.*)$', p, re.S)
                self.params.append((int(m.group(1)), m.group(2)))
                self.locals[int(m.group(1))] = m.group(2)
            rest = h[j + 1:].strip()
            if rest.startswith('->'):
                self.ret = rest[2:].rstrip('{').strip()
            else:
                self.ret = '()'
        cur = None
        stmts = []
        for raw in self.lines[1:]:
            s = raw.strip()
            if not s or s == '}':
                if s == '}' and cur is not None and raw.startswith('    }'):
                    # end of block
                    term = stmts[-1] if stmts and isinstance(stmts[-1], Term) else None
                    self.blocks[cur] = (stmts[:-1] if term else stmts, term)
                    cur = None
                    stmts = []
                continue
            if cur is None:
                m = re.match(r'let (mut )?_(\d+): (.*);$', s, re.S)
                if m:
                    self.locals[int(m.group(2))] = m.group(3)
                    continue
                m = re.match(r'debug (.+?) => (.*);$', s)
                if m:
                    mm = re.match(r'_(\d+)$', m.group(2))
                    if mm:
                        self.debug[int(mm.group(1))] = m.group(1)
                    mu = re.search(r'\(\(\*_\d+\)\.(\d+): ', m.group(2))
                    if mu:
                        self.upvar_names[int(mu.group(1))] = m.group(1)
                    continue
                m = re.match(r'bb(\d+)( \(cleanup\))?: \{$', s)
                if m:
                    cur = int(m.group(1))
                    if m.group(2):
                        self.cleanup.add(cur)
                    stmts = []
                    continue
                continue  # scope lines etc.
            if cur in self.cleanup:
                # cleanup blocks are never executed by the interpreter (panics end the path)
                stmts.append(Stmt('nop', text=s))
                continue
            stmts.append(parse_line(s))
        return self


class Dump:
    def __init__(self, path):
        self.path = path
        self.functions = {}     # printed name -> Function
        self.consts = {}        # name -> Function (kind const/static)
        self.allocs = {}        # alloc id -> dict(static=name | bytes=..., text=...)
        self.promoted = {}      # 'promoted[N] in NAME' -> Function
        self.const_inline = {}  # name -> const text (one-line items)
        self._load()

    def _load(self):
        with open(self.path) as f:
            lines = f.read().split('\n')
        i, n = 0, len(lines)
        while i < n:
            ln = lines[i]
            if ln.startswith(('fn ', 'const ', 'static ', 'promoted[')) and ln.rstrip().endswith('{'):
                j = i + 1
                while j < n and lines[j] != '}':
                    j += 1
                body = lines[i:j + 1]
                if ln.startswith('fn '):
                    # name = text between 'fn ' and the '(' that opens the parameter list
                    name = self._fn_name(ln)
                    self.functions[name] = Function(name, ln, body)
                elif ln.startswith('promoted['):
                    m = re.match(r'(promoted\[\d+\] in (.*?)): (.*) = \{$', ln)
                    if m:
                        fn = Function(m.group(1), ln, body, kind='promoted')
                        fn.ret = m.group(3)
                        self.promoted[m.group(1)] = fn
                else:
                    m = re.match(r'(const|static)( mut)? (.*) = \{$', ln)
                    if m:
                        nm, ty = _split_name_type(m.group(3))
                        fn = Function(nm, ln, body, kind=m.group(1))
                        fn.ret = ty
                        self.consts[nm] = fn
                i = j + 1
                continue
            m = re.match(r'(const|static)( mut)? (.*?) = const (.*);$', ln)
            if m and not ln.startswith(' '):
                self.const_inline[_split_name_type(m.group(3))[0]] = m.group(4)
                i += 1
                continue
            m = re.match(r'(alloc\d+) \((.*)\) \{(.*)$', ln)
            if m:
                info = {'desc': m.group(2), 'text': []}
                ms = re.match(r'static: ([\w:]+)', m.group(2))
                if ms:
                    info['static'] = ms.group(1)
                if m.group(3).strip() == '}':
                    self.allocs[m.group(1)] = info
                    i += 1
                    continue
                j = i + 1
                while j < n and lines[j] != '}':
                    info['text'].append(lines[j])
                    j += 1
                self.allocs[m.group(1)] = info
                i = j + 1
                continue
            i += 1

    @staticmethod
    def _fn_name(header):
        s = header[3:]
        # find '(' followed by '_1:' or ')' at angle depth 0
        depth = 0
        i = 0
        while i < len(s):
            c = s[i]
            if c == '<':
                depth += 1
            elif c == '>' and not (i > 0 and s[i - 1] in '-='):
                depth -= 1
            elif c == '{':
                # {closure#0} or {impl#..}
                j = s.index('}', i)
                i = j
            elif c == '(' and depth == 0:
                return s[:i]
            i += 1
        raise ValueError(header)

    def alloc_bytes(self, aid):
        """Concrete bytes of an allocation without relocations (or None)."""
        info = self.allocs.get(aid)
        if info is None:
            return None
        out = []
        for t in info['text']:
            t = t.split('│')[0]
            t = re.sub(r'^\s*0x[0-9a-f]+\s*│?', '', t)
            for tok in t.split():
                if re.fullmatch(r'[0-9a-f]{2}', tok):
                    out.append(int(tok, 16))
                elif tok.startswith('╾') or 'alloc' in tok:
                    return None
                elif tok == '__':
                    out.append(0)
        return bytes(out)
