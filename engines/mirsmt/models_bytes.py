"""Opaque payload values: message data (Bytes / Vec<u8>) and attribute maps are
tokens; equal tokens <=> equal contents.  Size and content are unconstrained."""
import z3
from values import *


class BytesTok(Model):
    def __init__(self, tok):
        self.tok = tok

    def ite(self, c, o):
        return BytesTok(z3.If(c, self.tok, o.tok))

    def eq(self, o):
        return self.tok == o.tok

    def __repr__(self):
        return 'Bytes(%s)' % self.tok


class AttrMapTok(Model):
    def __init__(self, tok):
        self.tok = tok

    def ite(self, c, o):
        return AttrMapTok(z3.If(c, self.tok, o.tok))

    def eq(self, o):
        return self.tok == o.tok

    def __repr__(self):
        return 'Attrs(%s)' % self.tok
