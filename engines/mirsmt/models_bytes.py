"""Opaque payload values: message data (Bytes / Vec<u8>) and attribute maps are
tokens; equal tokens <=> equal contents.  Size and content are unconstrained."""
import z3
from values import *


class BytesTok(Model):
    def __init__(self, tok):
        self.tok = tok

    def ite(self, c, o):
        return BytesTok(z3.If(c, self.tok, o.tok))

    def eq(self, o):
        return self.tok == o.tok

    def __repr__(self):
        return 'Bytes(%s)' % self.tok


_attr_len = z3.Function('attrs_len', z3.IntSort(), z3.IntSort())


class AttrMapTok(Model):
    """HashMap<String, String> of attributes as an opaque token; token 0 is the empty map"""

    def __init__(self, tok):
        self.tok = tok

    def count(self):
        return z3.If(self.tok == 0, 0, z3.If(_attr_len(self.tok) > 0, _attr_len(self.tok), 1))

    def ite(self, c, o):
        return AttrMapTok(z3.If(c, self.tok, o.tok))

    def eq(self, o):
        return self.tok == o.tok

    def __repr__(self):
        return 'Attrs(%s)' % self.tok

    # iteration: the entries of an opaque map are functions of its token (stated bound: at most ATTR_SLOTS entries are looked at)
    def entries(self, ip):
        from models_str import StrTok
        ip.path.assume(self.count() <= ATTR_SLOTS)
        return [(StrTok(_attr_key(self.tok, i)), StrTok(_attr_val(self.tok, i))) for i in range(ATTR_SLOTS)]

    def iter_window(self, mode):
        raise Unsupported('iteration over an attribute map needs the path (use as_window)')

    def into_iter(self, ip):
        from models_coll import Seq, Window
        ents = self.entries(ip)
        seq = Seq([Agg(None, [Ref(Loc(Cell(k, 'attr-key'))), Ref(Loc(Cell(v, 'attr-val')))]) for k, v in ents], self.count(), 'vec')
        return Window(seq, 0, seq.n)


ATTR_SLOTS = 2
_attr_key = z3.Function('attr_key', z3.IntSort(), z3.IntSort(), z3.IntSort())
_attr_val = z3.Function('attr_val', z3.IntSort(), z3.IntSort(), z3.IntSort())
_attrs_from = z3.Function('attrs_from', *([z3.IntSort()] * (2 * ATTR_SLOTS + 2)))


def attrs_collect(ip, pairs_seq):
    """HashMap<String, String> collected from a sequence of (key, value) string tokens: a function of the entries; collecting all
    entries of a map `a` in its iteration order gives `a` again"""
    from models_str import StrTok
    from models_core import deref_all
    if len(pairs_seq.elems) > ATTR_SLOTS:
        raise Unsupported('attribute map with more than %d collected entries' % ATTR_SLOTS)
    ks, vs = [], []
    for e in pairs_seq.elems:
        k, v = deref_all(e.fields[0]), deref_all(e.fields[1])
        if not (isinstance(k, StrTok) and isinstance(v, StrTok)):
            raise Unsupported('attribute entries that are not opaque strings')
        ks.append(k.tok)
        vs.append(v.tok)
    while len(ks) < ATTR_SLOTS:
        ks.append(z3.IntVal(0))
        vs.append(z3.IntVal(0))
    n = pairs_seq.n
    args = []
    for i in range(ATTR_SLOTS):
        args += [z3.If(n > i, ks[i], 0), z3.If(n > i, vs[i], 0)]
    tok = z3.If(n == 0, 0, _attrs_from(*(args + [n])))
    # identity instances: for every map token mentioned in the entries, collecting exactly its entries gives it back
    seen = set()
    for t in ks + vs:
        for sub in _subterms(t):
            if sub.decl().name() in ('attr_key', 'attr_val'):
                a = sub.arg(0)
                if a.get_id() in seen:
                    continue
                seen.add(a.get_id())
                am = AttrMapTok(a)
                full = []
                for i in range(ATTR_SLOTS):
                    full += [z3.If(am.count() > i, _attr_key(a, i), 0), z3.If(am.count() > i, _attr_val(a, i), 0)]
                ip.path.assume(z3.Implies(a != 0, _attrs_from(*(full + [am.count()])) == a))
    r = AttrMapTok(tok)
    ip.path.assume(z3.Implies(tok != 0, _attr_len(tok) == n))
    return r


def _subterms(t):
    out, todo = [], [t]
    while todo:
        x = todo.pop()
        if z3.is_app(x):
            out.append(x)
            todo += list(x.children())
    return out


class NeBytes(Model):
    """[u8; 8] holding the native-endian bytes of a usize"""

    def __init__(self, v):
        self.v = v

    def ite(self, c, o):
        return NeBytes(z3.If(c, self.v, o.v))

    def eq(self, o):
        return self.v == o.v


class DecodedVec(Model):
    """Vec<u8> produced by base64 decode of string token `tok` under engine `eng`"""

    def __init__(self, eng, tok):
        self.eng = eng
        self.tok = tok


def _ufs(eng):
    I, B = z3.IntSort(), z3.BoolSort()
    return (z3.Function('b64_%s_enc' % eng, I, I), z3.Function('b64_%s_dec_ok' % eng, I, B),
            z3.Function('b64_%s_dec_len' % eng, I, I), z3.Function('b64_%s_dec_u64' % eng, I, I))


def _engine_name(ip, v):
    from models_core import deref_all
    e = deref_all(v)
    if isinstance(e, Opaque):
        nm = str(e.data if e.data is not None else e.tag).split('::')[-1]
        if nm.startswith('promoted') or not nm.isidentifier():
            raise Unsupported('base64 engine constant not resolved: %r' % (e,))
        return nm
    raise Unsupported('base64 engine %r' % (e,))


def install(ctx):
    from models_str import StrTok, Str
    from models_core import ok, err, some, NONE
    M = ctx.models

    @M.reg('usize::to_ne_bytes', 'u64::to_ne_bytes', 'core::num::to_ne_bytes', 'num::to_ne_bytes', '::to_ne_bytes')
    def to_ne_bytes(ip, pc, args, dt):
        return NeBytes(args[0].t)

    @M.reg('usize::from_ne_bytes', 'u64::from_ne_bytes', 'num::from_ne_bytes', '::from_ne_bytes')
    def from_ne_bytes(ip, pc, args, dt):
        return S(args[0].v, 'usize')

    @M.reg('<GeneralPurpose as Engine>::encode', '<Engine>::encode')
    def b64_encode(ip, pc, args, dt):
        eng = _engine_name(ip, args[0])
        data = args[1]
        from models_core import deref_all
        data = deref_all(data)
        enc, dok, dlen, dval = _ufs(eng)
        if isinstance(data, NeBytes):
            t = enc(data.v)
            # contract of a base64 engine: decoding (with the same engine) what it encoded gives the bytes back
            ip.path.assume(z3.And(dok(t), dlen(t) == 8, dval(t) == data.v))
            return StrTok(t)
        if isinstance(data, BytesTok):
            f = z3.Function('b64_%s_enc_bytes' % eng, z3.IntSort(), z3.IntSort())
            return StrTok(f(data.tok))
        raise Unsupported('base64 encode of %r' % (data,))

    @M.reg('<GeneralPurpose as Engine>::decode', '<Engine>::decode')
    def b64_decode(ip, pc, args, dt):
        eng = _engine_name(ip, args[0])
        from models_core import deref_all
        s = deref_all(args[1])
        if not isinstance(s, StrTok):
            raise Unsupported('base64 decode of a byte-level string')
        enc, dok, dlen, dval = _ufs(eng)
        ip.path.assume(z3.And(dlen(s.tok) >= 0, dval(s.tok) >= 0, dval(s.tok) < (1 << 64)))
        return Enum('Result', z3.If(dok(s.tok), 0, 1), {0: (DecodedVec(eng, s.tok),), 1: (Opaque('DecodeError'),)})

    prev_default = M.table.get('<HashMap as Default>::default')

    @M.reg('<HashMap as Default>::default')
    def hashmap_default(ip, pc, args, dt):
        q = (pc.get('qself') or '') + ' ' + (dt or '')
        if 'HashMap<std::string::String, std::string::String>' in q:
            return AttrMapTok(z3.IntVal(0))
        return prev_default(ip, pc, args, dt)

    prev_len = M.table.get('HashMap::len')

    @M.reg('HashMap::len')
    def hashmap_len(ip, pc, args, dt):
        v = read_loc(args[0].loc)
        if isinstance(v, AttrMapTok):
            return S(v.count(), 'usize')
        return prev_len(ip, pc, args, dt)

    @M.reg('[T]::to_vec', 'slice::to_vec', '::to_vec', '<Bytes as From>::from', 'Bytes::from', 'Bytes::copy_from_slice', 'Bytes::to_vec')
    def bytes_identity(ip, pc, args, dt):
        from models_core import deref_all
        v = deref_all(args[0])
        if isinstance(v, BytesTok):
            return v
        return NotImplemented

    @M.reg('<Timestamp as From>::from')
    def timestamp_from(ip, pc, args, dt):
        return Agg('Timestamp', [args[0]])

    @M.reg('serde_json::to_string', 'to_string')
    def serde_to_string(ip, pc, args, dt):
        if 'serde_json' not in pc['raw']:
            return NotImplemented
        from models_core import ok, deref_all
        v = deref_all(args[0])
        ip.path.effect('serde_json::to_string', v)
        ip.path.counter += 1
        return ok(StrTok(z3.IntVal(-ip.path.counter)))

    @M.reg('<Vec as TryInto>::try_into')
    def vec_try_into(ip, pc, args, dt):
        v = args[0]
        if isinstance(v, DecodedVec):
            enc, dok, dlen, dval = _ufs(v.eng)
            return Enum('Result', z3.If(dlen(v.tok) == 8, 0, 1), {0: (NeBytes(dval(v.tok)),), 1: (v,)})
        return NotImplemented
