"""Opaque payload values: message data (Bytes / Vec<u8>) and attribute maps are
tokens; equal tokens <=> equal contents.  Size and content are unconstrained."""
import z3
from values import *


class BytesTok(Model):
    def __init__(self, tok):
        self.tok = tok

    def ite(self, c, o):
        return BytesTok(z3.If(c, self.tok, o.tok))

    def eq(self, o):
        return self.tok == o.tok

    def __repr__(self):
        return 'Bytes(%s)' % self.tok


class AttrMapTok(Model):
    def __init__(self, tok):
        self.tok = tok

    def ite(self, c, o):
        return AttrMapTok(z3.If(c, self.tok, o.tok))

    def eq(self, o):
        return self.tok == o.tok

    def __repr__(self):
        return 'Attrs(%s)' % self.tok


class NeBytes(Model):
    """[u8; 8] holding the native-endian bytes of a usize"""

    def __init__(self, v):
        self.v = v

    def ite(self, c, o):
        return NeBytes(z3.If(c, self.v, o.v))

    def eq(self, o):
        return self.v == o.v


class DecodedVec(Model):
    """Vec<u8> produced by base64 decode of string token `tok` under engine `eng`"""

    def __init__(self, eng, tok):
        self.eng = eng
        self.tok = tok


def _ufs(eng):
    I, B = z3.IntSort(), z3.BoolSort()
    return (z3.Function('b64_%s_enc' % eng, I, I), z3.Function('b64_%s_dec_ok' % eng, I, B),
            z3.Function('b64_%s_dec_len' % eng, I, I), z3.Function('b64_%s_dec_u64' % eng, I, I))


def _engine_name(ip, v):
    from models_core import deref_all
    e = deref_all(v)
    if isinstance(e, Opaque):
        nm = str(e.data if e.data is not None else e.tag).split('::')[-1]
        if nm.startswith('promoted') or not nm.isidentifier():
            raise Unsupported('base64 engine constant not resolved: %r' % (e,))
        return nm
    raise Unsupported('base64 engine %r' % (e,))


def install(ctx):
    from models_str import StrTok, Str
    from models_core import ok, err, some, NONE
    M = ctx.models

    @M.reg('usize::to_ne_bytes', 'u64::to_ne_bytes', 'core::num::to_ne_bytes', 'num::to_ne_bytes', '::to_ne_bytes')
    def to_ne_bytes(ip, pc, args, dt):
        return NeBytes(args[0].t)

    @M.reg('usize::from_ne_bytes', 'u64::from_ne_bytes', 'num::from_ne_bytes', '::from_ne_bytes')
    def from_ne_bytes(ip, pc, args, dt):
        return S(args[0].v, 'usize')

    @M.reg('<GeneralPurpose as Engine>::encode', '<Engine>::encode')
    def b64_encode(ip, pc, args, dt):
        eng = _engine_name(ip, args[0])
        data = args[1]
        from models_core import deref_all
        data = deref_all(data)
        enc, dok, dlen, dval = _ufs(eng)
        if isinstance(data, NeBytes):
            t = enc(data.v)
            # contract of a base64 engine: decoding (with the same engine) what it encoded gives the bytes back
            ip.path.assume(z3.And(dok(t), dlen(t) == 8, dval(t) == data.v))
            return StrTok(t)
        if isinstance(data, BytesTok):
            f = z3.Function('b64_%s_enc_bytes' % eng, z3.IntSort(), z3.IntSort())
            return StrTok(f(data.tok))
        raise Unsupported('base64 encode of %r' % (data,))

    @M.reg('<GeneralPurpose as Engine>::decode', '<Engine>::decode')
    def b64_decode(ip, pc, args, dt):
        eng = _engine_name(ip, args[0])
        from models_core import deref_all
        s = deref_all(args[1])
        if not isinstance(s, StrTok):
            raise Unsupported('base64 decode of a byte-level string')
        enc, dok, dlen, dval = _ufs(eng)
        ip.path.assume(z3.And(dlen(s.tok) >= 0, dval(s.tok) >= 0, dval(s.tok) < (1 << 64)))
        return Enum('Result', z3.If(dok(s.tok), 0, 1), {0: (DecodedVec(eng, s.tok),), 1: (Opaque('DecodeError'),)})

    @M.reg('<Vec as TryInto>::try_into')
    def vec_try_into(ip, pc, args, dt):
        v = args[0]
        if isinstance(v, DecodedVec):
            enc, dok, dlen, dval = _ufs(v.eng)
            return Enum('Result', z3.If(dlen(v.tok) == 8, 0, 1), {0: (NeBytes(dval(v.tok)),), 1: (v,)})
        return NotImplemented
