"""Contract models: Arc / Weak, tokio Notify, locks, logging, formatting, tonic Status.
Each call with an externally visible effect appends to the path's effect log."""
import re
import z3
from values import *
from interp import bool_s, mk_int, concrete_int, last_type_name
from models_core import NONE as NONE_
from models_core import some, NONE, opt_sym, ok, err, deref_all, variant_of


_arc_ids = [0]


class ArcIte(Model):
    """if-then-else over two Arcs of different representation"""

    def __init__(self, c, a, b):
        self.c, self.a, self.b = c, a, b

    @property
    def tok(self):
        return z3.If(self.c, self.a.tok, self.b.tok)

    def deref_loc(self, ip):
        return Loc(Cell(ite_val(self.c, read_loc(self.a.deref_loc(ip)), read_loc(self.b.deref_loc(ip))), 'arc-ite'))

    def ite(self, c, other):
        return ArcIte(c, self, other)

    def eq(self, other):
        return self.tok == other.tok


class ArcCell(Model):
    """Arc/Box/Rc pointing at one concrete heap cell"""

    def __init__(self, cell):
        self.cell = cell
        _arc_ids[0] += 1
        self.tok = z3.IntVal(-1000000000 - _arc_ids[0])

    def deref_loc(self, ip):
        return Loc(self.cell)

    def __repr__(self):
        return 'Arc(%r)' % (self.cell.v,)

    def ite(self, c, other):
        if isinstance(other, ArcCell) and other.cell is self.cell:
            return self
        return ArcIte(c, self, other)

    def eq(self, other):
        return eq_val(self.cell.v, other.cell.v)


class ArcTok(Model):
    """Arc to a shared immutable object identified by a symbolic token; the
    pointee's fields are functions of the token (ctx.tok_kinds[kind])"""

    def __init__(self, tok, kind):
        self.tok = tok
        self.kind = kind

    def deref_loc(self, ip):
        return Loc(Cell(ip.ctx.tok_kinds[self.kind](ip, self.tok), '%s#tok' % self.kind))

    def ite(self, c, other):
        if not isinstance(other, ArcTok):
            return ArcIte(c, self, other)
        return ArcTok(z3.If(c, self.tok, other.tok), self.kind)

    def eq(self, other):
        return self.tok == other.tok

    def ord_key(self, ip):
        return ip.ctx.tok_ord[self.kind](ip, self.tok)

    def __repr__(self):
        return 'ArcTok(%s %s)' % (self.kind, self.tok)


class WeakV(Model):
    def __init__(self, arc, alive):
        self.arc = arc
        self.alive = alive    # z3 Bool

    def ite(self, c, other):
        return WeakV(ite_val(c, self.arc, other.arc), z3.If(c, self.alive, other.alive))


class NotifyM(Model):
    def __init__(self, name):
        self.name = name

    def __repr__(self):
        return 'Notify(%s)' % self.name

    def ite(self, c, other):
        return self


class LockM(Model):
    def __init__(self, name, cell):
        self.name = name
        self.cell = cell


class GuardM(Model):
    def __init__(self, lock, mode):
        self.lock = lock
        self.mode = mode

    def deref_loc(self, ip):
        return Loc(self.lock.cell)

    def on_drop(self, ip):
        held = getattr(ip.path, 'locks_held', {})
        held.pop(self.lock.name, None)
        ip.path.effect('unlock', self.lock.name, self.mode)


class StatusV(Model):
    def __init__(self, code, msg=None):
        self.code = code
        self.msg = msg

    def __repr__(self):
        return 'Status(%s)' % self.code

    def ite(self, c, other):
        if other.code == self.code:
            return self
        raise Unsupported('ite over different Status codes')


def install(ctx):
    M = ctx.models
    ctx.default_models = {}
    install_http(ctx)
    ctx.tok_kinds = {}
    ctx.tok_ord = {}

    # ---------------------------------------------------------- Arc / Weak / Box
    @M.reg('Arc::new', 'Box::new', 'Rc::new', 'Arc::pin', 'Box::pin')
    def arc_new(ip, pc, args, dt):
        ip.path.effect('alloc', pc['segs'][-1])
        return ArcCell(Cell(args[0], 'heap'))

    @M.reg('Arc::clone')
    def arc_clone(ip, pc, args, dt):
        return read_loc(args[0].loc)

    @M.reg('Arc::downgrade')
    def arc_downgrade(ip, pc, args, dt):
        a = read_loc(args[0].loc)
        return WeakV(a, z3.BoolVal(True))

    @M.reg('Weak::upgrade')
    def weak_upgrade(ip, pc, args, dt):
        w = read_loc(args[0].loc)
        if isinstance(w.arc, ArcCell) and getattr(w.arc.cell, 'dropped', False):
            return NONE_            # every strong handle to this heap object is gone (a history obligation said so)
        return opt_sym(w.alive, w.arc)

    @M.reg('Arc::ptr_eq', 'Rc::ptr_eq', 'Weak::ptr_eq')
    def arc_ptr_eq(ip, pc, args, dt):
        def same(a, b):
            if isinstance(a, ArcIte):
                return z3.If(a.c, same(a.a, b), same(a.b, b))
            if isinstance(b, ArcIte):
                return z3.If(b.c, same(a, b.a), same(a, b.b))
            if isinstance(a, ArcCell) and isinstance(b, ArcCell):
                return z3.BoolVal(a.cell is b.cell)
            if isinstance(a, ArcTok) and isinstance(b, ArcTok):
                return a.tok == b.tok
            if isinstance(a, (ArcCell, ArcTok)) and isinstance(b, (ArcCell, ArcTok)):
                return z3.BoolVal(False)        # a heap cell created on this path is never one of the pre-existing tokens
            raise Unsupported('ptr_eq on %r / %r' % (a, b))
        return bool_s(z3.simplify(same(read_loc(args[0].loc), read_loc(args[1].loc))))

    @M.reg('Weak::strong_count', 'Arc::strong_count')
    def weak_strong_count(ip, pc, args, dt):
        w = read_loc(args[0].loc)
        n = ip.path.fresh('strong_count')
        if isinstance(w, WeakV):
            ip.path.assume(z3.If(w.alive, z3.And(n >= 1, n < (1 << 32)), n == 0))
        else:
            ip.path.assume(z3.And(n >= 1, n < (1 << 32)))
        return S(n, 'usize')

    @M.reg('Weak::clone')
    def weak_clone(ip, pc, args, dt):
        return read_loc(args[0].loc)

    # ---------------------------------------------------------- Notify
    @M.reg('Notify::new')
    def notify_new(ip, pc, args, dt):
        ip.path.counter += 1
        return NotifyM('notify#%d' % ip.path.counter)

    @M.reg('Notify::notify_one', 'Notify::notify_waiters')
    def notify_x(ip, pc, args, dt):
        n = read_loc(args[0].loc)
        ip.path.effect(pc['method'], n.name)
        return UNIT

    # ---------------------------------------------------------- locks
    @M.reg('RwLock::read', 'RwLock::write', 'Mutex::lock', 'RwLock::upgradable_read')
    def lock_acquire(ip, pc, args, dt):
        lk = read_loc(args[0].loc)
        if isinstance(lk, Ref):
            lk = read_loc(lk.loc)
        if not isinstance(lk, LockM):
            raise Unsupported('lock on %r' % (lk,))
        mode = {'read': 'read', 'write': 'write', 'lock': 'write', 'upgradable_read': 'read'}[pc['method']]
        held = getattr(ip.path, 'locks_held', {})
        if held.get(lk.name):
            # parking_lot locks are not re-entrant: a second acquisition on the same path deadlocks
            if mode == 'write' or held[lk.name] == 'write':
                raise PanicPath('deadlock', 'lock %s acquired while already held' % lk.name)
        held[lk.name] = mode
        ip.path.locks_held = held
        ip.path.effect('lock', lk.name, mode)
        return GuardM(lk, mode)

    @M.reg('Mutex::new', 'RwLock::new')
    def lock_new(ip, pc, args, dt):
        ip.path.counter += 1
        return LockM('%s#%d' % (pc['segs'][-1].lower(), ip.path.counter), Cell(args[0], 'locked'))

    @M.reg('<FutureExt>::shared', 'FutureExt::shared')
    def shared(ip, pc, args, dt):
        from models_async import Leaf, SharedM, OneshotRx
        a = args[0]
        if isinstance(a, OneshotRx) or (isinstance(a, Leaf) and a.kind == 'oneshot.recv') or not isinstance(a, (Enum, Agg, Leaf)):
            return Leaf('deleted', a)          # the observer's deletion one-shot
        return SharedM(a)

    # ---------------------------------------------------------- logging / formatting
    @M.reg('log::max_level', 'max_level')
    def max_level(ip, pc, args, dt):
        return Opaque('LevelFilter')

    @M.reg('<Level as PartialOrd>::le', '<Level>::le')
    def level_le(ip, pc, args, dt):
        # logging disabled: message formatting is not part of any property
        return bool_s(z3.BoolVal(False))

    @M.reg('format', 'fmt::format')
    def format_(ip, pc, args, dt):
        from models_str import StrTok
        ip.path.counter += 1
        return StrTok(z3.IntVal(-ip.path.counter))

    # ---------------------------------------------------------- tonic Request / Response
    @M.reg('Request::get_ref', 'Response::get_ref')
    def req_get_ref(ip, pc, args, dt):
        return Ref(args[0].loc.extend(('f', 0)))

    @M.reg('Request::get_mut', 'Response::get_mut')
    def req_get_mut(ip, pc, args, dt):
        return Ref(args[0].loc.extend(('f', 0)), True)

    @M.reg('Request::into_inner', 'Response::into_inner')
    def req_into_inner(ip, pc, args, dt):
        return args[0].fields[0]

    @M.reg('Request::new', 'Response::new')
    def req_new(ip, pc, args, dt):
        return Agg(pc['segs'][-1], [args[0]])

    @M.reg('ActivitySpan::start')
    def span_start(ip, pc, args, dt):
        return Opaque('ActivitySpan')

    # ---------------------------------------------------------- tonic Status
    for code in ('invalid_argument', 'not_found', 'already_exists', 'failed_precondition', 'internal',
                 'cancelled', 'unimplemented', 'unknown', 'aborted', 'unavailable'):
        def mk(code):
            def status(ip, pc, args, dt):
                return StatusV(code)
            return status
        M.register('Status::' + code, mk(code))


class MaybeUninitV(Model):
    """contents of a Box<MaybeUninit<[T; N]>> written through `(*ptr).1.0.0 = [..]` (vec! lowering)"""

    def __init__(self, inner=None):
        self.inner = inner

    def get_field(self, i):
        return self

    def set_field(self, i, new):
        if isinstance(new, MaybeUninitV):
            return new
        return MaybeUninitV(new)


class BoxUninit(Model):
    def __init__(self):
        self.cell = Cell(MaybeUninitV(), 'box-uninit')

    def get_field(self, i):
        return self

    def deref_loc(self, ip):
        return Loc(self.cell)

    def coerce(self, ip, ty, kind):
        return self


class HttpRequestM(Model):
    def __init__(self, method, url, headers=(), body=None):
        self.method, self.url, self.headers, self.body = method, url, tuple(headers), body


class HttpResponseM(Model):
    def __init__(self, status):
        self.status = status


def install_http(ctx):
    M = ctx.models
    from models_async import Leaf

    @M.reg('Box::new_uninit')
    def box_new_uninit(ip, pc, args, dt):
        return BoxUninit()

    @M.reg('box_assume_init_into_vec_unsafe', 'boxed::box_assume_init_into_vec_unsafe')
    def box_into_vec(ip, pc, args, dt):
        b = args[0]
        inner = b.cell.v.inner
        if inner is None:
            raise PanicPath('ub', 'vec! from an uninitialised box')
        from models_coll import Seq
        return Seq(inner.elems, inner.n, 'vec')

    @M.reg('Client::request')
    def client_request(ip, pc, args, dt):
        from models_core import deref_all
        return HttpRequestM(args[1], deref_all(args[2]))

    @M.reg('Client::new', 'Client::clone')
    def client_new(ip, pc, args, dt):
        return Opaque('reqwest::Client')

    @M.reg('RequestBuilder::header')
    def rb_header(ip, pc, args, dt):
        r = args[0]
        return HttpRequestM(r.method, r.url, r.headers + ((args[1], args[2]),), r.body)

    @M.reg('RequestBuilder::body')
    def rb_body(ip, pc, args, dt):
        r = args[0]
        return HttpRequestM(r.method, r.url, r.headers, args[1])

    @M.reg('RequestBuilder::send')
    def rb_send(ip, pc, args, dt):
        ip.path.effect('http.send', args[0])
        return Leaf('http.send', args[0])

    @M.reg('Response::status')
    def resp_status(ip, pc, args, dt):
        r = read_loc(args[0].loc)
        if isinstance(r, HttpResponseM):
            return S(r.status, 'StatusCode')
        return NotImplemented

    @M.reg('reqwest::Error::status', 'Error::status')
    def err_status(ip, pc, args, dt):
        # reqwest: a status is attached only by error_for_status(); send() errors (connect, timeout, body, redirect) carry none
        from models_core import NONE
        e = read_loc(args[0].loc) if isinstance(args[0], Ref) else args[0]
        if isinstance(e, Opaque) and e.tag == 'reqwest::Error':
            return NONE
        return NotImplemented

    # http::StatusCode::default() is 200 OK
    if not hasattr(ctx, 'default_models'):
        ctx.default_models = {}
    ctx.default_models['StatusCode'] = lambda ip: S(z3.IntVal(200), 'StatusCode')

    @M.reg('<StatusCode as Into>::into', '<u16 as From>::from', 'StatusCode::as_u16')
    def status_into(ip, pc, args, dt):
        v = args[0]
        if isinstance(v, Ref):
            v = read_loc(v.loc)
        if isinstance(v, S) and v.ty == 'StatusCode':
            return S(v.t, 'u16')
        return NotImplemented
