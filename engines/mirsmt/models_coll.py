"""Bounded symbolic collections and iterator adaptors (contract models).

Seq   : Vec / VecDeque / arrays / slices  = python list of slot values + symbolic length
MapM  : HashMap<K,V>   = slots (used, key, value), keys of used slots pairwise distinct
SetM  : BTreeSet<T>    = slots (used, elem), elems of used slots pairwise distinct,
                         `first` = minimum under the structural (derived) Ord
Iterators are lazy views (window over a Seq) or adaptor objects stepped by `next`.
All encodings are quantifier-free ite chains."""
import z3
from values import *
from interp import bool_s, mk_int, concrete_int
from models_core import some, NONE, opt_sym, ok, err, variant_of, deref_all, lex_cmp


def zint(v):
    return z3.IntVal(v) if isinstance(v, int) else v


def select(elems, idx, default=None):
    """elems[idx] for symbolic idx as an ite chain"""
    ci = concrete_int(idx) if not isinstance(idx, int) else idx
    if ci is not None:
        if 0 <= ci < len(elems):
            return elems[ci]
        if default is not None:
            return default
        raise Infeasible()
    if not elems:
        if default is not None:
            return default
        raise Infeasible()
    out = elems[-1]
    for i in range(len(elems) - 2, -1, -1):
        out = ite_val(idx == i, elems[i], out)
    return out


# ====================================================================== Seq

class Seq(Model):
    def __init__(self, elems, n, kind='vec', lazy=None):
        self.elems = list(elems)
        self.n = zint(n)
        self.kind = kind
        self.lazy = lazy      # callable(ip) -> fresh element, for sequences longer than their slots

    @staticmethod
    def concrete(vals, kind='vec'):
        return Seq(vals, len(vals), kind)

    @staticmethod
    def empty(kind='vec'):
        return Seq([], 0, kind)

    def __repr__(self):
        return 'Seq(%s n=%s %r)' % (self.kind, self.n, self.elems)

    def length(self):
        return S(self.n, 'usize')

    def cn(self):
        return concrete_int(self.n)

    def index(self, i):
        return select(self.elems, i.t if isinstance(i, S) else i)

    def set_index(self, i, v):
        it = i.t if isinstance(i, S) else zint(i)
        ci = concrete_int(it)
        if ci is not None:
            e = list(self.elems)
            e[ci] = v
            return Seq(e, self.n, self.kind)
        return Seq([ite_val(it == k, v, e) for k, e in enumerate(self.elems)], self.n, self.kind)

    def push(self, v):
        c = self.cn()
        if c is not None:
            return Seq(self.elems[:c] + [v], c + 1, self.kind)
        e = [ite_val(self.n == k, v, x) for k, x in enumerate(self.elems)] + [v]
        return Seq(e, self.n + 1, self.kind)

    def ite(self, c, other):
        m = max(len(self.elems), len(other.elems))
        a = self.elems + other.elems[len(self.elems):]
        b = other.elems + self.elems[len(other.elems):]
        return Seq([ite_val(c, x, y) for x, y in zip(a, b)], z3.If(c, self.n, other.n), self.kind)

    def eq(self, other):
        conj = [self.n == other.n]
        for k, (x, y) in enumerate(zip(self.elems, other.elems)):
            conj.append(z3.Implies(self.n > k, eq_val(x, y)))
        return z3.And(conj)

    def valid(self, k):
        return self.n > k

    def coerce(self, ip, ty, kind):
        return self


class Window(Model):
    """iterator over seq[lo..hi); `by_ref` yields references to the elements"""

    def __init__(self, seq, lo, hi, by_ref=False, root=None):
        self.seq = seq
        self.lo = zint(lo)
        self.hi = zint(hi)
        self.by_ref = by_ref
        self.root = root      # Loc of the sequence when by_ref

    def __repr__(self):
        return 'Window(%s..%s of %r)' % (self.lo, self.hi, self.seq)

    def remaining(self):
        return z3.If(self.hi > self.lo, self.hi - self.lo, 0)

    def elem_at(self, idx):
        v = select(self.seq.elems, idx)
        if self.by_ref:
            ci = concrete_int(idx)
            if ci is not None and self.root is not None:
                return Ref(self.root.extend(('i', mk_int(ci, 'usize'))))
            return Ref(Loc(Cell(v, 'elem')))
        return v

    def next(self, ip):
        if not ip.path.branch(self.lo < self.hi, 'iter.next'):
            return self, NONE
        if not self.seq.elems:
            raise Infeasible()
        v = self.elem_at(self.lo)
        return Window(self.seq, z3.simplify(self.lo + 1), self.hi, self.by_ref, self.root), some(v)
        yield

    def to_seq(self):
        """the remaining window as a Seq (no forking)"""
        lo = concrete_int(self.lo)
        n = z3.simplify(self.remaining())
        cap = len(self.seq.elems)
        if lo is not None:
            return Seq([self.elem_at(z3.IntVal(lo + j)) for j in range(max(0, cap - lo))], n, 'vec')
        out = []
        for j in range(cap):
            out.append(self.elem_at(z3.If(self.lo + j < cap, self.lo + j, cap - 1)) if cap else None)
        return Seq(out, n, 'vec')


class FromFnM(Model):
    """std::iter::from_fn(f): every next() calls f (side effects and all)"""

    def __init__(self, f):
        self.f = f

    def next(self, ip):
        r = yield from ip.call_closure(self.f, [])
        return self, r

    def ite(self, c, o):
        return self


class ChunksM(Model):
    """slice::chunks(c) for a concrete chunk size: yields references to consecutive sub-slices of at most c elements"""

    def __init__(self, seq, pos, c):
        self.seq, self.pos, self.c = seq, pos, c

    def next(self, ip):
        if not ip.path.branch(self.seq.n > self.pos, 'chunks.next'):
            return self, NONE
        cap = len(self.seq.elems)
        rest = self.seq.n - self.pos
        sub = Seq(list(self.seq.elems[self.pos:self.pos + self.c]), z3.simplify(z3.If(rest < self.c, rest, self.c)), 'vec')
        return ChunksM(self.seq, self.pos + self.c, self.c), some(Ref(Loc(Cell(sub, 'chunk'))))
        yield

    def ite(self, c, o):
        return self


class TakeM(Model):
    """Iterator::take(k) over an iterator that must stay lazy (its next() has side effects)"""

    def __init__(self, inner, k):
        self.inner, self.k = inner, k

    def next(self, ip):
        if not ip.path.branch(self.k > 0, 'take'):
            return self, NONE
        inner, o = yield from iter_next(ip, self.inner)
        return TakeM(inner, z3.simplify(self.k - 1)), o

    def ite(self, c, o):
        return self


class Adaptor(Model):
    """Map / Filter / Zip / Cloned / Enumerate / Skip / Take over arbitrary inner iterators"""

    def __init__(self, kind, inner, arg=None, inner2=None):
        self.kind = kind
        self.inner = inner
        self.arg = arg
        self.inner2 = inner2

    def __repr__(self):
        return 'Adaptor(%s %r)' % (self.kind, self.inner)

    def next(self, ip):
        k = self.kind
        if k == 'map':
            inner, o = yield from iter_next(ip, self.inner)
            me = Adaptor(k, inner, self.arg)
            if variant_of(ip, o) == 0:
                return me, NONE
            r = yield from ip.call_closure(self.arg, [o.payload[1][0]])
            return me, some(r)
        if k == 'filter':
            inner = self.inner
            for _ in range(ip.unroll + 2):
                inner, o = yield from iter_next(ip, inner)
                if variant_of(ip, o) == 0:
                    return Adaptor(k, inner, self.arg), NONE
                v = o.payload[1][0]
                keep = yield from ip.call_closure(self.arg, [Ref(Loc(Cell(v, 'filter-arg')))])
                if ip.path.branch(keep.t, 'filter'):
                    return Adaptor(k, inner, self.arg), some(v)
            raise OutOfBound('filter unrolling')
        if k == 'zip':
            a, oa = yield from iter_next(ip, self.inner)
            if variant_of(ip, oa) == 0:
                return Adaptor(k, a, None, self.inner2), NONE
            b, ob = yield from iter_next(ip, self.inner2)
            if variant_of(ip, ob) == 0:
                return Adaptor(k, a, None, b), NONE
            return Adaptor(k, a, None, b), some(Agg(None, [oa.payload[1][0], ob.payload[1][0]]))
        if k == 'map_while':
            if self.inner2 == 'done':
                return self, NONE
            inner, o = yield from iter_next(ip, self.inner)
            if variant_of(ip, o) == 0:
                return Adaptor(k, inner, self.arg), NONE
            r = yield from ip.call_closure(self.arg, [o.payload[1][0]])
            if variant_of(ip, r) == 0:
                return Adaptor(k, inner, self.arg, 'done'), NONE
            return Adaptor(k, inner, self.arg), some(r.payload[1][0])
        if k == 'take_while':
            if self.inner2 == 'done':
                return self, NONE
            inner, o = yield from iter_next(ip, self.inner)
            if variant_of(ip, o) == 0:
                return Adaptor(k, inner, self.arg), NONE
            v = o.payload[1][0]
            keep = yield from ip.call_closure(self.arg, [Ref(Loc(Cell(v, 'tw-arg')))])
            if ip.path.branch(keep.t, 'take_while'):
                return Adaptor(k, inner, self.arg), some(v)
            return Adaptor(k, inner, self.arg, 'done'), NONE
        if k == 'skip_while':
            inner = self.inner
            if self.inner2 == 'done':
                inner, o = yield from iter_next(ip, inner)
                return Adaptor(k, inner, self.arg, 'done'), o
            for _ in range(ip.unroll + 2):
                inner, o = yield from iter_next(ip, inner)
                if variant_of(ip, o) == 0:
                    return Adaptor(k, inner, self.arg, 'done'), NONE
                v = o.payload[1][0]
                sk = yield from ip.call_closure(self.arg, [Ref(Loc(Cell(v, 'sw-arg')))])
                if not ip.path.branch(sk.t, 'skip_while'):
                    return Adaptor(k, inner, self.arg, 'done'), some(v)
            raise OutOfBound('skip_while unrolling')
        if k == 'filter_map':
            inner = self.inner
            for _ in range(ip.unroll + 2):
                inner, o = yield from iter_next(ip, inner)
                if variant_of(ip, o) == 0:
                    return Adaptor(k, inner, self.arg), NONE
                r = yield from ip.call_closure(self.arg, [o.payload[1][0]])
                if variant_of(ip, r) == 1:
                    return Adaptor(k, inner, self.arg), some(r.payload[1][0])
            raise OutOfBound('filter_map unrolling')
        if k == 'chain':
            if self.inner is not None:
                a, o = yield from iter_next(ip, self.inner)
                if variant_of(ip, o) == 1:
                    return Adaptor(k, a, None, self.inner2), o
                b, o = yield from iter_next(ip, self.inner2)
                return Adaptor(k, None, None, b), o
            b, o = yield from iter_next(ip, self.inner2)
            return Adaptor(k, None, None, b), o
        if k == 'inspect':
            inner, o = yield from iter_next(ip, self.inner)
            if variant_of(ip, o) == 1:
                yield from ip.call_closure(self.arg, [Ref(Loc(Cell(o.payload[1][0], 'inspect-arg')))])
            return Adaptor(k, inner, self.arg), o
        if k == 'cloned':
            inner, o = yield from iter_next(ip, self.inner)
            if variant_of(ip, o) == 0:
                return Adaptor(k, inner), NONE
            return Adaptor(k, inner), some(deref_all(o.payload[1][0]))
        if k == 'enumerate':
            inner, o = yield from iter_next(ip, self.inner)
            if variant_of(ip, o) == 0:
                return Adaptor(k, inner, self.arg), NONE
            i = self.arg
            return Adaptor(k, inner, i + 1), some(Agg(None, [mk_int(i, 'usize'), o.payload[1][0]]))
        raise Unsupported('adaptor ' + k)


def iter_next(ip, it):
    if isinstance(it, Agg) and it.name == 'Range':
        a, b = it.fields
        if ip.path.branch(a.t < b.t, 'range.next'):
            return Agg('Range', [S(z3.simplify(a.t + 1), a.ty), b]), some(a)
        return it, NONE
    if isinstance(it, (Window, Adaptor)):
        r = yield from it.next(ip)
        return r
    if hasattr(it, 'next'):
        r = yield from it.next(ip)
        return r
    raise Unsupported('next on %r' % (it,))


def as_window(ip, v, by_ref=False, root=None):
    """IntoIterator for the collection values"""
    if isinstance(v, (Window, Adaptor)):
        return v
    if isinstance(v, Agg) and v.name == 'Range':
        return v
    if isinstance(v, Seq):
        return Window(v, 0, v.n, by_ref, root)
    if isinstance(v, Ref):
        inner = read_loc(v.loc)
        if isinstance(inner, Seq):
            return Window(inner, 0, inner.n, True, v.loc)
        if isinstance(inner, (Window, Adaptor)):
            return inner
        if isinstance(inner, MapM):
            return inner.iter_window('pairs')
    if isinstance(v, MapM):
        return v.iter_window('pairs_owned')
    if isinstance(v, Enum) and v.name == 'Option':
        # Option<T> as IntoIterator: zero or one element
        d = v.discr if not isinstance(v.discr, int) else z3.IntVal(v.discr)
        pl = v.payload.get(1)
        return Window(Seq([pl[0]] if pl else [], z3.If(d == 1, 1, 0), 'vec'), 0, z3.If(d == 1, 1, 0), by_ref, None)
    if hasattr(v, 'into_iter'):
        return v.into_iter(ip)
    if hasattr(v, 'next'):
        return v                      # a lazy iterator model (str::split, char_indices, ...)
    if isinstance(v, Ref) and hasattr(read_loc(v.loc), 'next'):
        return read_loc(v.loc)
    raise Unsupported('into_iter on %r' % (v,))


def collect_seq(ip, it):
    """drain an iterator into a Seq"""
    if isinstance(it, Window):
        return it.to_seq()
    out = Seq.empty()
    for _ in range(ip.unroll + 2):
        it, o = yield from iter_next(ip, it)
        if variant_of(ip, o) == 0:
            return out
        out = out.push(o.payload[1][0])
    raise OutOfBound('collect unrolling')


# ====================================================================== MapM

class MapM(Model):
    def __init__(self, slots):
        self.slots = list(slots)   # (used: z3 Bool, key, val)

    @staticmethod
    def empty():
        return MapM([])

    def __repr__(self):
        return 'MapM(%r)' % (self.slots,)

    def wf(self):
        """well-formedness: used keys pairwise distinct"""
        c = []
        for i in range(len(self.slots)):
            for j in range(i + 1, len(self.slots)):
                ui, ki, _ = self.slots[i]
                uj, kj, _ = self.slots[j]
                c.append(z3.Implies(z3.And(ui, uj), z3.Not(eq_val(ki, kj))))
        return z3.And(c) if c else z3.BoolVal(True)

    def found(self, k):
        return z3.Or([z3.And(u, eq_val(key, k)) for u, key, _ in self.slots] or [z3.BoolVal(False)])

    def lookup(self, k):
        """value stored under k (meaningful only when found)"""
        if not self.slots:
            return None
        out = self.slots[-1][2]
        for u, key, val in reversed(self.slots[:-1]):
            out = ite_val(z3.And(u, eq_val(key, k)), val, out)
        return out

    def count(self):
        return z3.Sum([z3.If(u, 1, 0) for u, _, _ in self.slots]) if self.slots else z3.IntVal(0)

    def removed(self, k):
        return MapM([(z3.And(u, z3.Not(eq_val(key, k))), key, val) for u, key, val in self.slots])

    def inserted(self, k, v):
        f = self.found(k)
        sl = [(u, key, ite_val(z3.And(u, eq_val(key, k)), v, val)) for u, key, val in self.slots]
        sl.append((z3.simplify(z3.Not(f)), k, v))
        return MapM(sl)

    def updated(self, k, v):
        return MapM([(u, key, ite_val(z3.And(u, eq_val(key, k)), v, val)) for u, key, val in self.slots])

    def compact(self, what):
        """Seq of the used slots' values/keys/pairs in slot order (no forking)"""
        n = len(self.slots)
        if n == 0:
            return Seq.empty()
        items = []
        for u, key, val in self.slots:
            if what == 'values':
                items.append(val)
            elif what == 'keys':
                items.append(key)
            else:
                items.append(Agg(None, [key, val]))
        pos = []
        acc = z3.IntVal(0)
        for u, _, _ in self.slots:
            pos.append(acc)
            acc = acc + z3.If(u, 1, 0)
        out = []
        for j in range(n):
            cur = items[-1]
            for i in range(n - 2, -1, -1):
                cur = ite_val(z3.And(self.slots[i][0], pos[i] == j), items[i], cur)
            out.append(cur)
        return Seq(out, z3.simplify(acc), 'vec')

    def iter_window(self, what):
        by_ref = what in ('values', 'keys', 'pairs')
        seq = self.compact('values' if what == 'values' else ('keys' if what == 'keys' else 'pairs'))
        if what == 'pairs':
            # yields (&K, &V)
            seq = Seq([Agg(None, [Ref(Loc(Cell(p.fields[0], 'k'))), Ref(Loc(Cell(p.fields[1], 'v')))])
                       for p in seq.elems], seq.n)
            return Window(seq, 0, seq.n, False)
        return Window(seq, 0, seq.n, by_ref)

    def ite(self, c, other):
        if len(self.slots) != len(other.slots):
            raise Unsupported('ite over maps of different slot counts')
        return MapM([(z3.If(c, u1, u2), ite_val(c, k1, k2), ite_val(c, v1, v2))
                     for (u1, k1, v1), (u2, k2, v2) in zip(self.slots, other.slots)])


class MapSlotRoot:
    """virtual root: the value stored under `key` in the map at `map_loc`"""

    def __init__(self, map_loc, key):
        self.map_loc = map_loc
        self.key = key

    def get(self):
        return read_loc(self.map_loc).lookup(self.key)

    def set(self, v):
        write_loc(self.map_loc, read_loc(self.map_loc).updated(self.key, v))

    def __repr__(self):
        return 'MapSlot(%r)' % (self.key,)


class EntryM(Model):
    def __init__(self, map_loc, key):
        self.map_loc = map_loc
        self.key = key


# ====================================================================== SetM

class SetM(Model):
    def __init__(self, slots):
        self.slots = list(slots)    # (used, elem)

    @staticmethod
    def empty():
        return SetM([])

    def __repr__(self):
        return 'SetM(%r)' % (self.slots,)

    def wf(self):
        c = []
        for i in range(len(self.slots)):
            for j in range(i + 1, len(self.slots)):
                ui, ei = self.slots[i]
                uj, ej = self.slots[j]
                c.append(z3.Implies(z3.And(ui, uj), z3.Not(eq_val(ei, ej))))
        return z3.And(c) if c else z3.BoolVal(True)

    def contains(self, e):
        return z3.Or([z3.And(u, eq_val(x, e)) for u, x in self.slots] or [z3.BoolVal(False)])

    def count(self):
        return z3.Sum([z3.If(u, 1, 0) for u, _ in self.slots]) if self.slots else z3.IntVal(0)

    def nonempty(self):
        return z3.Or([u for u, _ in self.slots] or [z3.BoolVal(False)])

    def is_min(self, i):
        ui, ei = self.slots[i]
        c = [ui]
        for j, (uj, ej) in enumerate(self.slots):
            if j != i:
                lt, eq = lex_cmp(ej, ei)
                c.append(z3.Implies(uj, z3.Not(lt)))
        return z3.And(c)

    def min_elem(self):
        out = self.slots[-1][1]
        for i in range(len(self.slots) - 2, -1, -1):
            out = ite_val(self.is_min(i), self.slots[i][1], out)
        return out

    def sorted_seq(self):
        """the elements in ascending order as a Seq (selection by repeated minimum: fork-free)"""
        cur = SetM(list(self.slots))
        out = []
        for _ in range(len(self.slots)):
            m = cur.min_elem()
            out.append(m)
            cur = SetM([(z3.simplify(z3.And(u, z3.Not(cur.is_min(i)))), x) for i, (u, x) in enumerate(cur.slots)])
        return Seq(out, self.count(), 'vec')

    def removed(self, e):
        return SetM([(z3.And(u, z3.Not(eq_val(x, e))), x) for u, x in self.slots])

    def inserted(self, e):
        return SetM(self.slots + [(z3.simplify(z3.Not(self.contains(e))), e)])

    def ite(self, c, other):
        if len(self.slots) != len(other.slots):
            raise Unsupported('ite over sets of different slot counts')
        return SetM([(z3.If(c, u1, u2), ite_val(c, e1, e2)) for (u1, e1), (u2, e2) in zip(self.slots, other.slots)])


# ====================================================================== sorting

def sort_seq(ip, seq, lt_fn):
    """sorting network (bubble) over the slots; invalid slots sort last.
    lt_fn(a, b) -> z3 Bool (strict); generator (the comparison may run MIR)"""
    e = list(seq.elems)
    n = len(e)
    valid = [seq.n > k for k in range(n)]
    for i in range(n):
        for j in range(n - 1 - i):
            a, b = e[j], e[j + 1]
            va, vb = valid[j], valid[j + 1]
            ltba = yield from lt_fn(b, a)
            swap = z3.Or(z3.And(vb, z3.Not(va)), z3.And(va, vb, ltba))
            e[j], e[j + 1] = ite_val(swap, b, a), ite_val(swap, a, b)
            valid[j], valid[j + 1] = z3.If(swap, vb, va), z3.If(swap, va, vb)
    return Seq(e, seq.n, seq.kind)


# ====================================================================== install

def install(ctx):
    M = ctx.models

    def seq_at(ref):
        v = read_loc(ref.loc) if isinstance(ref, Ref) else ref
        if isinstance(v, Ref):
            v = read_loc(v.loc)
        return v

    # ---------------------------------------------------------- Vec / VecDeque / slices
    @M.reg('Vec::new', 'VecDeque::new', 'Vec::with_capacity', 'VecDeque::with_capacity',
           '<Vec as Default>::default', '<VecDeque as Default>::default')
    def vec_new(ip, pc, args, dt):
        return Seq.empty('deque' if 'VecDeque' in pc['raw'] else 'vec')

    @M.reg('Vec::push', 'VecDeque::push_back')
    def vec_push(ip, pc, args, dt):
        r, v = args
        write_loc(r.loc, read_loc(r.loc).push(v))
        return UNIT

    @M.reg('Vec::len', 'VecDeque::len', '<impl [T]>::len', '[T]::len', 'slice::len', '::len')
    def vec_len(ip, pc, args, dt):
        v = seq_at(args[0])
        if hasattr(v, 'length'):
            return v.length()
        if isinstance(v, MapM) or isinstance(v, SetM):
            return S(v.count(), 'usize')
        return NotImplemented

    @M.reg('Vec::is_empty', 'VecDeque::is_empty', '[T]::is_empty', '::is_empty')
    def vec_is_empty(ip, pc, args, dt):
        v = seq_at(args[0])
        if isinstance(v, Seq):
            return bool_s(v.n == 0)
        if isinstance(v, (MapM, SetM)):
            return bool_s(v.count() == 0)
        if hasattr(v, 'length'):
            return bool_s(v.length().t == 0)
        return NotImplemented

    @M.reg('Vec::reserve', 'VecDeque::reserve', 'Vec::shrink_to_fit')
    def vec_reserve(ip, pc, args, dt):
        return UNIT

    @M.reg('Vec::clear', 'VecDeque::clear')
    def vec_clear(ip, pc, args, dt):
        write_loc(args[0].loc, Seq.empty(read_loc(args[0].loc).kind))
        return UNIT

    @M.reg('VecDeque::pop_front')
    def pop_front(ip, pc, args, dt):
        r = args[0]
        s = read_loc(r.loc)
        if not ip.path.branch(s.n > 0, 'pop_front'):
            return NONE
        if not s.elems:
            if s.lazy is None:
                raise Infeasible()
            s = Seq([s.lazy(ip)], s.n, s.kind, s.lazy)
        write_loc(r.loc, Seq(s.elems[1:], z3.simplify(s.n - 1), s.kind, s.lazy))
        return some(s.elems[0])

    @M.reg('Vec::pop', 'VecDeque::pop_back')
    def pop_back(ip, pc, args, dt):
        r = args[0]
        s = read_loc(r.loc)
        if not ip.path.branch(s.n > 0, 'pop'):
            return NONE
        v = select(s.elems, s.n - 1)
        write_loc(r.loc, Seq(s.elems, z3.simplify(s.n - 1), s.kind))
        return some(v)

    @M.reg('Vec::extend', 'VecDeque::extend', '<Extend>::extend')
    def extend(ip, pc, args, dt):
        r, src = args
        it = as_window(ip, src)
        s = read_loc(r.loc)
        if isinstance(s, Seq) and isinstance(it, Window) and not it.by_ref and s.cn() is not None and concrete_int(it.lo) is not None:
            # append a (possibly symbolic-length) window to a concrete-length seq without forking
            w = it.to_seq()
            write_loc(r.loc, Seq(s.elems[:s.cn()] + w.elems, z3.simplify(s.n + w.n), s.kind))
            return UNIT
        for _ in range(ip.unroll + 2):
            it, o = yield from iter_next(ip, it)
            if variant_of(ip, o) == 0:
                return UNIT
            write_loc(r.loc, read_loc(r.loc).push(o.payload[1][0]))
        raise OutOfBound('extend unrolling')

    @M.reg('<IntoIterator>::into_iter')
    def into_iter(ip, pc, args, dt):
        return as_window(ip, args[0])

    @M.reg('[T]::iter', 'Vec::iter', 'VecDeque::iter', '::iter')
    def iter_(ip, pc, args, dt):
        v = args[0]
        inner = read_loc(v.loc)
        if isinstance(inner, Ref):
            v = inner
            inner = read_loc(v.loc)
        if isinstance(inner, Seq):
            return Window(inner, 0, inner.n, True, v.loc)
        if isinstance(inner, MapM):
            return inner.iter_window('pairs')
        return NotImplemented

    @M.reg('<Iterator>::next')
    def it_next(ip, pc, args, dt):
        r = args[0]
        it = read_loc(r.loc)
        it2, o = yield from iter_next(ip, it)
        write_loc(r.loc, it2)
        return o

    @M.reg('<Iterator>::size_hint', '<ExactSizeIterator>::len')
    def size_hint(ip, pc, args, dt):
        it = seq_at(args[0])
        if isinstance(it, Window):
            rem = S(z3.simplify(it.remaining()), 'usize')
            if pc['method'] == 'len':
                return rem
            return Agg(None, [rem, some(rem)])
        z = mk_int(0, 'usize')
        return Agg(None, [z, NONE])

    @M.reg('<Iterator>::map')
    def it_map(ip, pc, args, dt):
        return Adaptor('map', as_window(ip, args[0]), args[1])

    @M.reg('<Iterator>::filter')
    def it_filter(ip, pc, args, dt):
        return Adaptor('filter', as_window(ip, args[0]), args[1])

    @M.reg('<Iterator>::map_while', '<Iterator>::take_while', '<Iterator>::skip_while', '<Iterator>::filter_map',
           '<Iterator>::inspect')
    def it_closure_adaptor(ip, pc, args, dt):
        return Adaptor(pc['method'], as_window(ip, args[0]), args[1])

    @M.reg('<Iterator>::chain')
    def it_chain(ip, pc, args, dt):
        return Adaptor('chain', as_window(ip, args[0]), None, as_window(ip, args[1]))

    @M.reg('<Iterator>::rev')
    def it_rev(ip, pc, args, dt):
        it = as_window(ip, args[0])
        s = yield from collect_seq(ip, it)
        n = s.cn()
        if n is None:
            # symbolic length: reverse by index arithmetic
            elems = [select(s.elems, z3.If(s.n - 1 - j >= 0, s.n - 1 - j, 0)) for j in range(len(s.elems))]
            return Window(Seq(elems, s.n), 0, s.n)
        return Window(Seq(list(reversed(s.elems[:n])), n), 0, n)

    @M.reg('<Iterator>::for_each')
    def it_for_each(ip, pc, args, dt):
        it = as_window(ip, args[0])
        for _ in range(ip.unroll + 2):
            it, o = yield from iter_next(ip, it)
            if variant_of(ip, o) == 0:
                return UNIT
            yield from ip.call_closure(args[1], [o.payload[1][0]])
        raise OutOfBound('for_each unrolling')

    @M.reg('<Iterator>::fold')
    def it_fold(ip, pc, args, dt):
        it = as_window(ip, args[0])
        acc = args[1]
        for _ in range(ip.unroll + 2):
            it, o = yield from iter_next(ip, it)
            if variant_of(ip, o) == 0:
                return acc
            acc = yield from ip.call_closure(args[2], [acc, o.payload[1][0]])
        raise OutOfBound('fold unrolling')

    @M.reg('<Iterator>::try_fold')
    def it_try_fold(ip, pc, args, dt):
        r = args[0]
        it = as_window(ip, read_loc(r.loc) if isinstance(r, Ref) else r)
        acc = args[1]
        for _ in range(ip.unroll + 2):
            it, o = yield from iter_next(ip, it)
            if isinstance(r, Ref):
                write_loc(r.loc, it)
            if variant_of(ip, o) == 0:
                # Try::from_output(acc): Some(acc) / Ok(acc) according to what the closure produces
                kind = getattr(ip, '_try_fold_kind', 'Option')
                return some(acc) if kind == 'Option' else ok(acc)
            res = yield from ip.call_closure(args[2], [acc, o.payload[1][0]])
            ip._try_fold_kind = res.name
            if res.name == 'Option':
                if variant_of(ip, res) == 0:
                    return res
                acc = res.payload[1][0]
            elif res.name == 'Result':
                if variant_of(ip, res) == 1:
                    return res
                acc = res.payload[0][0]
            else:
                raise Unsupported('try_fold over %s' % res.name)
        raise OutOfBound('try_fold unrolling')

    @M.reg('<Iterator>::count')
    def it_count(ip, pc, args, dt):
        it = as_window(ip, args[0])
        if isinstance(it, Window):
            return S(z3.simplify(it.remaining()), 'usize')
        s = yield from collect_seq(ip, it)
        return s.length()

    @M.reg('<Iterator>::any', '<Iterator>::all')
    def it_any_all(ip, pc, args, dt):
        r = args[0]
        it = as_window(ip, read_loc(r.loc) if isinstance(r, Ref) else r)
        is_any = pc['method'] == 'any'
        for _ in range(ip.unroll + 2):
            it, o = yield from iter_next(ip, it)
            if variant_of(ip, o) == 0:
                return bool_s(z3.BoolVal(not is_any))
            t = yield from ip.call_closure(args[1], [o.payload[1][0]])
            if ip.path.branch(t.t if is_any else z3.Not(t.t), 'any/all'):
                if isinstance(r, Ref):
                    write_loc(r.loc, it)
                return bool_s(z3.BoolVal(is_any))
        raise OutOfBound('any/all unrolling')

    @M.reg('<Iterator>::find', '<Iterator>::position')
    def it_find(ip, pc, args, dt):
        r = args[0]
        it = as_window(ip, read_loc(r.loc) if isinstance(r, Ref) else r)
        pos = 0
        for _ in range(ip.unroll + 2):
            it, o = yield from iter_next(ip, it)
            if variant_of(ip, o) == 0:
                return NONE
            v = o.payload[1][0]
            arg = Ref(Loc(Cell(v, 'find-arg'))) if pc['method'] == 'find' else v
            t = yield from ip.call_closure(args[1], [arg])
            if ip.path.branch(t.t, 'find'):
                if isinstance(r, Ref):
                    write_loc(r.loc, it)
                return some(v if pc['method'] == 'find' else mk_int(pos, 'usize'))
            pos += 1
        raise OutOfBound('find unrolling')

    @M.reg('<Iterator>::last')
    def it_last(ip, pc, args, dt):
        s = yield from collect_seq(ip, as_window(ip, args[0]))
        if not s.elems:
            return NONE
        return opt_sym(s.n > 0, select(s.elems, z3.If(s.n > 0, s.n - 1, 0)))

    @M.reg('<Iterator>::nth')
    def it_nth(ip, pc, args, dt):
        r = args[0]
        it = as_window(ip, read_loc(r.loc))
        n = concrete_int(args[1].t)
        if n is None:
            raise Unsupported('nth with symbolic index')
        o = NONE
        for _ in range(n + 1):
            it, o = yield from iter_next(ip, it)
            if variant_of(ip, o) == 0:
                break
        write_loc(r.loc, it)
        return o

    @M.reg('Vec::drain', 'VecDeque::drain')
    def vec_drain(ip, pc, args, dt):
        r, rng = args
        s = read_loc(r.loc)
        if getattr(rng, 'name', None) == 'RangeFull':
            write_loc(r.loc, Seq.empty(s.kind))
            return Window(s, 0, s.n)
        nm = getattr(rng, 'name', None)
        if nm in ('RangeTo', 'Range', 'RangeFrom') and not getattr(s, 'lazy', None):
            a = z3.IntVal(0) if nm == 'RangeTo' else rng.fields[0].t
            b = s.n if nm == 'RangeFrom' else rng.fields[-1].t
            if not ip.path.branch(z3.And(a <= b, b <= s.n, a >= 0), 'drain bounds'):
                raise PanicPath('panic', 'drain range out of bounds')
            cap = len(s.elems)
            k = z3.simplify(b - a)
            rest = [select(s.elems, z3.simplify(z3.If(a > j, j, j + k)), default=s.elems[j]) for j in range(cap)]
            write_loc(r.loc, Seq(rest, z3.simplify(s.n - k), s.kind))
            return Window(s, z3.simplify(a), z3.simplify(b))
        raise Unsupported('drain of a sub-range')

    @M.reg('Vec::split_off', 'VecDeque::split_off')
    def vec_split_off(ip, pc, args, dt):
        r, at = args
        s = read_loc(r.loc)
        if not isinstance(s, Seq) or getattr(s, 'lazy', None):
            raise Unsupported('split_off on %r' % (s,))
        if not ip.path.branch(z3.And(at.t >= 0, at.t <= s.n), 'split_off bound'):
            raise PanicPath('panic', 'split_off: at > len')
        cap = len(s.elems)
        tail = [select(s.elems, z3.simplify(at.t + j), default=s.elems[j]) for j in range(cap)]
        write_loc(r.loc, Seq(list(s.elems), z3.simplify(at.t), s.kind))
        return Seq(tail, z3.simplify(s.n - at.t), s.kind)

    @M.reg('VecDeque::rotate_left', 'VecDeque::rotate_right', '[T]::rotate_left', '[T]::rotate_right')
    def rotate(ip, pc, args, dt):
        r, k = args
        loc = r.loc
        s = read_loc(loc)
        if isinstance(s, Ref):
            loc = s.loc
            s = read_loc(loc)
        if not ip.path.branch(k.t <= s.n, 'rotate bound'):
            raise PanicPath('panic', 'rotate amount exceeds the length')
        cap = len(s.elems)
        if cap == 0:
            return UNIT
        left = pc['method'] == 'rotate_left'
        out = []
        for j in range(cap):
            # new[j] = old[(j + k) mod n] (left) / old[(j - k) mod n] (right)
            src = (j + k.t) if left else (j - k.t + s.n)
            src = z3.If(s.n > 0, src % z3.If(s.n > 0, s.n, 1), 0)
            out.append(select(s.elems, z3.If(s.n > j, src, j)))
        write_loc(loc, Seq(out, s.n, s.kind))
        return UNIT

    @M.reg('VecDeque::push_front')
    def push_front(ip, pc, args, dt):
        r, v = args
        s = read_loc(r.loc)
        write_loc(r.loc, Seq([v] + s.elems, z3.simplify(s.n + 1), s.kind, s.lazy))
        return UNIT

    @M.reg('VecDeque::front', 'VecDeque::back', '[T]::last', 'Vec::last')
    def front_back(ip, pc, args, dt):
        s = seq_at(args[0])
        if not s.elems:
            return NONE
        if pc['method'] == 'front':
            return opt_sym(s.n > 0, Ref(Loc(Cell(s.elems[0], 'front'))))
        return opt_sym(s.n > 0, Ref(Loc(Cell(select(s.elems, z3.If(s.n > 0, s.n - 1, 0)), 'back'))))

    @M.reg('iter::from_fn', 'from_fn')
    def iter_from_fn(ip, pc, args, dt):
        return FromFnM(args[0])

    @M.reg('Vec::retain', 'VecDeque::retain', 'Vec::retain_mut')
    def vec_retain(ip, pc, args, dt):
        r, f = args
        s = read_loc(r.loc)
        if getattr(s, 'lazy', None):
            raise Unsupported('retain on a lazily extended sequence')
        out = Seq.empty(s.kind)
        for i, e in enumerate(s.elems):
            if not ip.path.branch(s.n > i, 'retain.len'):
                break
            keep = yield from ip.call_closure(f, [Ref(Loc(Cell(e, 'retain-arg')), pc['method'] == 'retain_mut')])
            if ip.path.branch(keep.t, 'retain.keep'):
                out = out.push(e)
        write_loc(r.loc, out)
        return UNIT

    @M.reg('vec::from_elem', 'from_elem')
    def vec_from_elem(ip, pc, args, dt):
        # vec![x; n]
        x, n = args
        cn = concrete_int(n.t)
        cap = cn if cn is not None else ip.unroll
        if cn is None:
            ip.path.assume(n.t <= cap)        # stated bound: at most `unroll` copies are looked at
        return Seq([x] * cap, n.t, 'vec')

    @M.reg('slice::chunks', '[T]::chunks', 'chunks')
    def slice_chunks(ip, pc, args, dt):
        sv = args[0]
        while isinstance(sv, Ref):
            sv = read_loc(sv.loc)
        c = concrete_int(args[1].t)
        if not isinstance(sv, Seq) or c is None or c <= 0:
            raise Unsupported('chunks over %r with size %r' % (sv, args[1]))
        return ChunksM(sv, 0, c)

    @M.reg('Vec::as_slice', 'Vec::as_mut_slice', 'VecDeque::make_contiguous')
    def vec_as_slice(ip, pc, args, dt):
        return args[0]

    @M.reg('Vec::swap_remove', 'Vec::remove', 'VecDeque::remove')
    def vec_remove(ip, pc, args, dt):
        r, k = args
        s = read_loc(r.loc)
        deque = pc['segs'][-2] == 'VecDeque' if len(pc['segs']) >= 2 else False
        inb = ip.path.branch(z3.And(k.t >= 0, k.t < s.n), 'remove index in bounds')
        if not inb:
            if deque:
                return NONE
            raise PanicPath('panic', 'removal index out of bounds')
        cap = len(s.elems)
        old = select(s.elems, k.t)
        if pc['method'] == 'swap_remove':
            last = select(s.elems, s.n - 1)
            rest = [ite_val(k.t == j, last, s.elems[j]) for j in range(cap)]
        else:
            rest = [select(s.elems, z3.If(k.t > j, j, z3.If(j + 1 < cap, j + 1, j))) for j in range(cap)]
        write_loc(r.loc, Seq(rest, z3.simplify(s.n - 1), s.kind))
        return some(old) if deque else old

    @M.reg('Vec::insert')
    def vec_insert(ip, pc, args, dt):
        r, k, v = args
        s = read_loc(r.loc)
        if not ip.path.branch(z3.And(k.t >= 0, k.t <= s.n), 'insert index in bounds'):
            raise PanicPath('panic', 'insertion index out of bounds')
        elems = s.elems + [v]
        cap = len(elems)
        rest = [ite_val(k.t == j, v, select(elems, z3.If(k.t > j, j, z3.If(j > 0, j - 1, 0)))) for j in range(cap)]
        write_loc(r.loc, Seq(rest, z3.simplify(s.n + 1), s.kind))
        return UNIT

    @M.reg('Vec::truncate', 'VecDeque::truncate')
    def truncate(ip, pc, args, dt):
        r, k = args
        s = read_loc(r.loc)
        write_loc(r.loc, Seq(s.elems, z3.simplify(z3.If(k.t < s.n, k.t, s.n)), s.kind))
        return UNIT

    @M.reg('Vec::append', 'VecDeque::append')
    def vec_append(ip, pc, args, dt):
        r, o = args
        other = read_loc(o.loc)
        it = Window(other, 0, other.n)
        write_loc(o.loc, Seq.empty(other.kind))
        for _ in range(ip.unroll + 2):
            it, x = yield from iter_next(ip, it)
            if variant_of(ip, x) == 0:
                return UNIT
            write_loc(r.loc, read_loc(r.loc).push(x.payload[1][0]))
        raise OutOfBound('append unrolling')

    @M.reg('<Iterator>::zip')
    def it_zip(ip, pc, args, dt):
        return Adaptor('zip', as_window(ip, args[0]), None, as_window(ip, args[1]))

    @M.reg('<Iterator>::cloned', '<Iterator>::copied')
    def it_cloned(ip, pc, args, dt):
        it = as_window(ip, args[0])
        if isinstance(it, Window) and it.by_ref:
            return Window(it.seq, it.lo, it.hi, False)
        return Adaptor('cloned', it)

    @M.reg('<Iterator>::enumerate')
    def it_enumerate(ip, pc, args, dt):
        return Adaptor('enumerate', as_window(ip, args[0]), 0)

    @M.reg('<Iterator>::skip')
    def it_skip(ip, pc, args, dt):
        if hasattr(args[0], 'next') and not isinstance(args[0], (Window, Adaptor)):
            it, kk = args[0], concrete_int(args[1].t)
            if kk is None:
                raise Unsupported('skip(symbolic) on a lazy iterator')
            for _ in range(kk):
                it, _o = yield from it.next(ip)
            return it
        it, k = as_window(ip, args[0]), args[1]
        if isinstance(it, Window):
            lo = z3.If(it.lo + k.t < it.hi, it.lo + k.t, z3.If(it.hi > it.lo, it.hi, it.lo))
            return Window(it.seq, z3.simplify(lo), it.hi, it.by_ref, it.root)
        # materialise first
        s = yield from collect_seq(ip, it)
        w = Window(s, 0, s.n)
        lo = z3.If(k.t < s.n, k.t, s.n)
        return Window(s, z3.simplify(lo), s.n)

    @M.reg('<Iterator>::take')
    def it_take(ip, pc, args, dt):
        it, k = as_window(ip, args[0]), args[1]
        if not isinstance(it, Window):
            return TakeM(it, k.t)          # stays lazy: draining the inner iterator first would run its side effects too often
        hi = z3.If(it.lo + k.t < it.hi, it.lo + k.t, it.hi)
        return Window(it.seq, it.lo, z3.simplify(hi), it.by_ref, it.root)

    @M.reg('<Iterator>::collect', '<FromIterator>::from_iter')
    def it_collect(ip, pc, args, dt):
        it = as_window(ip, args[0])
        tgt = (dt or '').strip()
        if tgt.startswith(('std::result::Result<', 'Result<')):
            out = Seq.empty()
            for _ in range(ip.unroll + 2):
                it, o = yield from iter_next(ip, it)
                if variant_of(ip, o) == 0:
                    return ok(out)
                r = o.payload[1][0]
                if variant_of(ip, r) == 1:
                    return err(r.payload[1][0])
                out = out.push(r.payload[0][0])
            raise OutOfBound('collect unrolling')
        if 'HashMap' in tgt.split('<')[0]:
            s = yield from collect_seq(ip, it)
            from models_bytes import attrs_collect
            return attrs_collect(ip, s)
        s = yield from collect_seq(ip, it)
        return s

    @M.reg('[T]::sort_unstable', '[T]::sort', 'Vec::sort_unstable', '::sort_unstable')
    def sort_unstable(ip, pc, args, dt):
        r = args[0]
        loc = r.loc
        s = read_loc(loc)
        if isinstance(s, Ref):
            loc = s.loc
            s = read_loc(loc)
        cmpfn = ip.ctx.ord_lt_for(ip, s, pc)
        srt = yield from sort_seq(ip, s, cmpfn)
        write_loc(loc, srt)
        return UNIT

    @M.reg('[T]::sort_unstable_by', '[T]::sort_by', 'Vec::sort_by', 'Vec::sort_unstable_by', '::sort_unstable_by', '::sort_by')
    def sort_by(ip, pc, args, dt):
        # the comparator is a closure (&T, &T) -> Ordering: element a sorts before b iff it answers Less
        r, f = args[0], args[1]
        loc = r.loc
        s = read_loc(loc)
        if isinstance(s, Ref):
            loc = s.loc
            s = read_loc(loc)

        def lt(a, b):
            o = yield from ip.call_closure(f, [Ref(Loc(Cell(a, 'sort-a'))), Ref(Loc(Cell(b, 'sort-b')))])
            d = o.discr if not isinstance(o.discr, int) else z3.IntVal(o.discr)
            return d == -1
        srt = yield from sort_seq(ip, s, lt)
        write_loc(loc, srt)
        return UNIT

    @M.reg('[T]::sort_unstable_by_key', '[T]::sort_by_key', 'Vec::sort_by_key', 'Vec::sort_unstable_by_key', '::sort_unstable_by_key', '::sort_by_key',
           '[T]::sort_by_cached_key', '::sort_by_cached_key')
    def sort_by_key(ip, pc, args, dt):
        r, f = args[0], args[1]
        loc = r.loc
        s = read_loc(loc)
        if isinstance(s, Ref):
            loc = s.loc
            s = read_loc(loc)

        def lt(a, b):
            ka = yield from ip.call_closure(f, [Ref(Loc(Cell(a, 'sort-a')))])
            kb = yield from ip.call_closure(f, [Ref(Loc(Cell(b, 'sort-b')))])
            l, _ = lex_cmp(deref_all(ka), deref_all(kb))
            return l
        srt = yield from sort_seq(ip, s, lt)
        write_loc(loc, srt)
        return UNIT

    @M.reg('[T]::first', 'Vec::first')
    def first(ip, pc, args, dt):
        s = seq_at(args[0])
        return opt_sym(s.n > 0, Ref(Loc(Cell(s.elems[0] if s.elems else None, 'first'))))

    @M.reg('<Index>::index', '<IndexMut>::index_mut')
    def index(ip, pc, args, dt):
        r, i = args
        s = read_loc(r.loc)
        if isinstance(s, Ref):
            s = read_loc(s.loc)
        if isinstance(s, Seq) and isinstance(i, S):
            if not ip.path.branch(z3.And(i.t >= 0, i.t < s.n), 'index bound'):
                raise PanicPath('panic', 'index out of bounds')
            return Ref(r.loc.extend(('i', i)))
        if isinstance(s, Seq) and isinstance(i, Agg) and i.name in ('Range', 'RangeFrom', 'RangeTo', 'RangeFull'):
            lo = i.fields[0].t if i.name in ('Range', 'RangeFrom') else z3.IntVal(0)
            hi = i.fields[1].t if i.name == 'Range' else (i.fields[0].t if i.name == 'RangeTo' else s.n)
            if not ip.path.branch(z3.And(lo <= hi, hi <= s.n), 'slice range bound'):
                raise PanicPath('panic', 'slice index out of range')
            w = Window(s, lo, hi)
            return Ref(Loc(Cell(w.to_seq(), 'subslice')))
        return NotImplemented

    # ---------------------------------------------------------- HashMap
    @M.reg('HashMap::new', '<HashMap as Default>::default', 'HashMap::with_capacity')
    def map_new(ip, pc, args, dt):
        return MapM.empty()

    @M.reg('HashMap::insert')
    def map_insert(ip, pc, args, dt):
        r, k, v = args
        m = read_loc(r.loc)
        old = opt_sym(m.found(k), m.lookup(k)) if m.slots else NONE
        write_loc(r.loc, m.inserted(k, v))
        ip.path.effect('map-mutate', 'insert', k)
        return old

    @M.reg('HashMap::remove')
    def map_remove(ip, pc, args, dt):
        r, k = args
        k = deref_all(k)
        m = read_loc(r.loc)
        if not m.slots:
            return NONE
        old = opt_sym(m.found(k), m.lookup(k))
        write_loc(r.loc, m.removed(k))
        ip.path.effect('map-mutate', 'remove', k)
        return old

    @M.reg('HashMap::get')
    def map_get(ip, pc, args, dt):
        r, k = args
        k = deref_all(k)
        m = read_loc(r.loc)
        if not m.slots:
            return NONE
        return opt_sym(m.found(k), Ref(Loc(Cell(m.lookup(k), 'map.get'))))

    @M.reg('HashMap::get_mut')
    def map_get_mut(ip, pc, args, dt):
        r, k = args
        k = deref_all(k)
        m = read_loc(r.loc)
        if not m.slots:
            return NONE
        return opt_sym(m.found(k), Ref(Loc(MapSlotRoot(r.loc, k)), True))

    @M.reg('HashMap::contains_key')
    def map_contains(ip, pc, args, dt):
        r, k = args
        return bool_s(read_loc(r.loc).found(deref_all(k)))

    @M.reg('HashMap::len')
    def map_len(ip, pc, args, dt):
        return S(read_loc(args[0].loc).count(), 'usize')

    @M.reg('HashMap::is_empty')
    def map_is_empty(ip, pc, args, dt):
        return bool_s(read_loc(args[0].loc).count() == 0)

    @M.reg('HashMap::clear')
    def map_clear(ip, pc, args, dt):
        write_loc(args[0].loc, MapM.empty())
        return UNIT

    @M.reg('HashMap::values')
    def map_values(ip, pc, args, dt):
        return read_loc(args[0].loc).iter_window('values')

    @M.reg('HashMap::keys')
    def map_keys(ip, pc, args, dt):
        return read_loc(args[0].loc).iter_window('keys')

    @M.reg('HashMap::iter')
    def map_iter(ip, pc, args, dt):
        m_ = read_loc(args[0].loc)
        if hasattr(m_, 'into_iter') and not hasattr(m_, 'slots'):
            return m_.into_iter(ip)
        return m_.iter_window('pairs')

    @M.reg('HashMap::entry')
    def map_entry(ip, pc, args, dt):
        r, k = args
        m = read_loc(r.loc)
        e = EntryM(r.loc, k)
        return Enum('Entry', z3.If(m.found(k), 0, 1), {0: (e,), 1: (e,)})

    @M.reg('OccupiedEntry::get_mut', 'OccupiedEntry::into_mut')
    def occ_get_mut(ip, pc, args, dt):
        e = deref_all(args[0])
        return Ref(Loc(MapSlotRoot(e.map_loc, e.key)), True)

    @M.reg('OccupiedEntry::get')
    def occ_get(ip, pc, args, dt):
        e = deref_all(args[0])
        return Ref(Loc(Cell(read_loc(e.map_loc).lookup(e.key), 'occ.get')))

    @M.reg('OccupiedEntry::remove')
    def occ_remove(ip, pc, args, dt):
        e = deref_all(args[0])
        m = read_loc(e.map_loc)
        v = m.lookup(e.key)
        write_loc(e.map_loc, m.removed(e.key))
        return v

    @M.reg('OccupiedEntry::insert')
    def occ_insert(ip, pc, args, dt):
        e = deref_all(args[0])
        m = read_loc(e.map_loc)
        old = m.lookup(e.key)
        write_loc(e.map_loc, m.updated(e.key, args[1]))
        return old

    @M.reg('VacantEntry::insert')
    def vac_insert(ip, pc, args, dt):
        e, v = args
        m = read_loc(e.map_loc)
        write_loc(e.map_loc, MapM(m.slots + [(z3.BoolVal(True), e.key, v)]))
        ip.path.effect('map-mutate', 'vacant.insert', e.key)
        return Ref(Loc(MapSlotRoot(e.map_loc, e.key)), True)

    @M.reg('Entry::or_insert')
    def entry_or_insert(ip, pc, args, dt):
        en, v = args
        e = en.payload[0][0]
        m = read_loc(e.map_loc)
        f = m.found(e.key)
        write_loc(e.map_loc, MapM(m.slots + [(z3.simplify(z3.Not(f)), e.key, v)]))
        return Ref(Loc(MapSlotRoot(e.map_loc, e.key)), True)

    # ---------------------------------------------------------- BTreeSet
    @M.reg('HashMap::drain')
    def map_drain(ip, pc, args, dt):
        r = args[0]
        m = read_loc(r.loc)
        if not isinstance(m, MapM):
            raise Unsupported('drain on %r' % (m,))
        w = m.iter_window('pairs_owned')
        write_loc(r.loc, MapM([]))
        return w

    @M.reg('HashSet::new', 'HashSet::with_capacity', '<HashSet as Default>::default')
    def hashset_new(ip, pc, args, dt):
        return SetM.empty()

    @M.reg('HashSet::insert')
    def hashset_insert(ip, pc, args, dt):
        r, e = args
        s = read_loc(r.loc)
        had = s.contains(e)
        write_loc(r.loc, s.inserted(e))
        return bool_s(z3.Not(had))

    @M.reg('HashSet::contains', 'BTreeSet::contains')
    def hashset_contains(ip, pc, args, dt):
        s = read_loc(args[0].loc)
        return bool_s(s.contains(deref_all(args[1])))

    @M.reg('HashSet::remove')
    def hashset_remove(ip, pc, args, dt):
        r, e = args
        e = deref_all(e)
        s = read_loc(r.loc)
        had = s.contains(e)
        write_loc(r.loc, s.removed(e))
        return bool_s(had)

    @M.reg('HashSet::len')
    def hashset_len(ip, pc, args, dt):
        return S(read_loc(args[0].loc).count(), 'usize')

    @M.reg('HashSet::is_empty')
    def hashset_is_empty(ip, pc, args, dt):
        return bool_s(z3.Not(read_loc(args[0].loc).nonempty()))

    @M.reg('HashSet::clear')
    def hashset_clear(ip, pc, args, dt):
        write_loc(args[0].loc, SetM.empty())
        return UNIT

    @M.reg('BTreeSet::new', '<BTreeSet as Default>::default')
    def set_new(ip, pc, args, dt):
        return SetM.empty()

    @M.reg('BTreeSet::iter', 'BTreeSet::into_iter', '<BTreeSet as IntoIterator>::into_iter')
    def set_iter(ip, pc, args, dt):
        a = args[0]
        s = read_loc(a.loc) if isinstance(a, Ref) else a
        if not s.slots:
            return Window(Seq.empty(), 0, z3.IntVal(0))
        seq = s.sorted_seq()
        return Window(seq, 0, seq.n, isinstance(a, Ref))

    @M.reg('BTreeSet::split_off')
    def set_split_off(ip, pc, args, dt):
        r, key = args
        key = deref_all(key)
        s = read_loc(r.loc)
        ge = []
        lt_ = []
        for u, x in s.slots:
            lt, eq = lex_cmp(x, key)
            lt_.append((z3.simplify(z3.And(u, lt)), x))
            ge.append((z3.simplify(z3.And(u, z3.Not(lt))), x))
        write_loc(r.loc, SetM(lt_))
        return SetM(ge)

    @M.reg('BTreeSet::first')
    def set_first(ip, pc, args, dt):
        s = read_loc(args[0].loc)
        if not s.slots:
            return NONE
        return opt_sym(s.nonempty(), Ref(Loc(Cell(s.min_elem(), 'set.first'))))

    @M.reg('BTreeSet::pop_first')
    def set_pop_first(ip, pc, args, dt):
        r = args[0]
        s = read_loc(r.loc)
        if not s.slots:
            return NONE
        m = s.min_elem()
        ne = s.nonempty()
        write_loc(r.loc, SetM([(z3.And(u, z3.Not(s.is_min(i))), x) for i, (u, x) in enumerate(s.slots)]))
        return opt_sym(ne, m)

    @M.reg('BTreeSet::insert')
    def set_insert(ip, pc, args, dt):
        r, e = args
        s = read_loc(r.loc)
        had = s.contains(e)
        write_loc(r.loc, s.inserted(e))
        return bool_s(z3.Not(had))

    @M.reg('BTreeSet::remove')
    def set_remove(ip, pc, args, dt):
        r, e = args
        e = deref_all(e)
        s = read_loc(r.loc)
        had = s.contains(e)
        write_loc(r.loc, s.removed(e))
        return bool_s(had)

    @M.reg('BTreeSet::clear')
    def set_clear(ip, pc, args, dt):
        write_loc(args[0].loc, SetM.empty())
        return UNIT

    @M.reg('BTreeSet::len')
    def set_len(ip, pc, args, dt):
        return S(read_loc(args[0].loc).count(), 'usize')

    @M.reg('BTreeSet::is_empty')
    def set_is_empty(ip, pc, args, dt):
        return bool_s(z3.Not(read_loc(args[0].loc).nonempty()))

    # default ordering used by sort_unstable: run the crate's Ord impl when the
    # element type has a hand-written one, else structural
    def ord_lt_for(ip, seq, pc):
        import re as _re
        from interp import last_type_name
        m = _re.search(r'impl \[(.*)\]>', pc['raw'])
        ety = m.group(1).strip() if m else ''
        while True:
            mm = _re.match(r'^(?:std::sync::)?(?:Arc|Box|Rc)<(.*)>$', ety) or _re.match(r'^&(?:mut )?(.*)$', ety)
            if not mm:
                break
            ety = mm.group(1).strip()
        tname = last_type_name(ety) if ety else ''
        crate_cmp = ip.index.methods.get((tname, 'Ord', 'cmp'))
        use_mir = bool(crate_cmp) and not crate_cmp[0].impl_info[2]
        # the std sorts compare with `T::lt`, i.e. through PartialOrd::partial_cmp: run the crate's hand-written one when there is one
        crate_pcmp = ip.index.methods.get((tname, 'PartialOrd', 'partial_cmp'))
        use_pcmp = bool(crate_pcmp) and not crate_pcmp[0].impl_info[2]

        def lt(a, b):
            if use_mir or use_pcmp:
                x, y = a, b
                # peel Arc / references down to the element type's own value location
                def to_ref(v):
                    for _ in range(4):
                        if isinstance(v, Ref):
                            inner = read_loc(v.loc)
                            if hasattr(inner, 'deref_loc') or isinstance(inner, Ref):
                                v = inner
                                continue
                            return v
                        if hasattr(v, 'deref_loc'):
                            v = Ref(v.deref_loc(ip))
                            continue
                        return Ref(Loc(Cell(v, 'sort-elem')))
                    return v
                if use_pcmp:
                    po = yield from ip.call_fn(crate_pcmp[0], [to_ref(x), to_ref(y)])
                    if variant_of(ip, po) == 0:
                        return z3.BoolVal(False)
                    o = po.payload[1][0]
                else:
                    o = yield from ip.call_fn(crate_cmp[0], [to_ref(x), to_ref(y)])
                d = o.discr if not isinstance(o.discr, int) else z3.IntVal(o.discr)
                return d == -1
            x, y = deref_all(a), deref_all(b)
            l, _ = lex_cmp(x, y)
            return l
            yield
        return lt
    ctx.ord_lt_for = ord_lt_for
