"""Contract models of tokio mpsc / oneshot / JoinSet / spawn / timers / Notified as
*leaf futures* (Tier 3): `poll` answers a nondeterministic Pending or Ready; every
externally visible effect is appended to the path's effect log.  Coroutine bodies
of the crate (async fn / async block) are interpreted from their MIR."""
import re
import z3
from values import *
from interp import bool_s, mk_int, concrete_int, norm_closure_ty, last_type_name
from models_core import some, NONE, opt_sym, ok, err, deref_all, variant_of

PENDING = Enum('Poll', 1, {1: ()})


def ready(v):
    return Enum('Poll', 0, {0: (v,)})


class SenderM(Model):
    """mpsc::Sender of an actor mailbox ('topic' / 'subscription', token)"""

    def __init__(self, kind, tok):
        self.kind = kind
        self.tok = tok

    def ite(self, c, o):
        return SenderM(self.kind, z3.If(c, self.tok, o.tok))

    def __repr__(self):
        return 'Sender(%s %s)' % (self.kind, self.tok)


class OneshotTx(Model):
    def __init__(self, cid):
        self.cid = cid

    def __repr__(self):
        return 'OneshotTx(%d)' % self.cid


class OneshotRx(Model):
    def __init__(self, cid):
        self.cid = cid

    def __repr__(self):
        return 'OneshotRx(%d)' % self.cid


class Leaf(Model):
    """a leaf future: kind + data; `done` after it returned Ready"""

    def __init__(self, kind, data=None, done=False):
        self.kind = kind
        self.data = data
        self.done = done

    def __repr__(self):
        return 'Leaf(%s)' % self.kind


class JoinSetM(Model):
    def __init__(self, tasks=()):
        self.tasks = tuple(tasks)


def may_pend(ip, what):
    """nondeterministic: does this poll answer Pending?  bounded by the path's budget"""
    p = ip.path
    budget = getattr(p, 'pending_budget', 0)
    if budget <= 0 or what in getattr(p, 'no_pend', ()):
        return False
    if p.choose(2, 'pending?' + what) == 1:
        p.pending_budget = budget - 1
        p.effect('pending', what)
        return True
    return False


def poll_leaf(ip, loc, leaf):
    p = ip.path
    k = leaf.kind
    if leaf.done:
        raise PanicPath('panic', 'leaf future %s polled after completion' % k)
    if k == 'mpsc.send':
        sender, req = leaf.data
        from t4 import sched_point
        yield from sched_point(ip, 'mailbox send ' + sender.kind)
        p.effect('await', 'capacity', sender.kind)
        live = getattr(p, 'live_mailbox', {}).get(sender.kind)
        if live is not None:
            # Tier 4, the actor is an activity of its own: the request goes into its real mailbox (never full: stated bound)
            rx, actor_act = live
            if getattr(p, 'fp', None) is not None:
                p.fp.add(('mailbox', sender.kind))
            write_loc(loc, Leaf(k, leaf.data, True))
            if actor_act.state == 'done':
                p.effect('send-closed', sender.kind, sender.tok)
                return ready(err(Opaque('SendError')))
            rx.items.append(req)
            p.effect('enqueue', sender.kind, sender.tok, req)
            actor_act.woken = True
            if actor_act.state == 'parked':
                actor_act.state = 'ready'
            return ready(ok(UNIT))
        if may_pend(ip, 'mpsc.send'):
            return PENDING
        write_loc(loc, Leaf(k, leaf.data, True))
        closed = getattr(p, 'allow_closed', False) and p.choose(2, 'send closed?') == 1
        if closed:
            p.effect('send-closed', sender.kind, sender.tok)
            return ready(err(Opaque('SendError')))
        p.effect('enqueue', sender.kind, sender.tok, req)
        hook = getattr(ip.ctx, 'on_enqueue', None)
        if hook is not None:
            hook(ip, sender, req)
        return ready(ok(UNIT))
    if k == 'oneshot.recv':
        cid = leaf.data
        p.effect('await', 'reply', cid)
        if getattr(p, 'live_oneshots', False) and cid not in getattr(p, 'replies', {}):
            from t4 import sched_point
            yield from sched_point(ip, 'reply recv')
            sent = getattr(p, 'sent', {})
            if cid in sent:
                write_loc(loc, Leaf(k, leaf.data, True))
                p.effect('reply-received', cid)
                return ready(ok(sent[cid]))
            if cid in getattr(p, 'dropped_tx', set()) or any(a.state == 'done' for a in getattr(p, 'responder_owners', [])):
                write_loc(loc, Leaf(k, leaf.data, True))
                p.effect('recv-closed', cid)
                return ready(err(Opaque('RecvError')))
            act = getattr(ip, 'activity', None)
            if act is not None:
                w = getattr(p, 'oneshot_waiters', {})
                w.setdefault(cid, [])
                if act not in w[cid]:
                    w[cid].append(act)
                p.oneshot_waiters = w
            return PENDING
        if may_pend(ip, 'oneshot.recv'):
            return PENDING
        write_loc(loc, Leaf(k, leaf.data, True))
        replies = getattr(p, 'replies', {})
        if cid in replies:
            p.effect('reply-received', cid)
            return ready(ok(replies[cid]))
        closed = getattr(p, 'allow_closed', False)
        if closed:
            p.effect('recv-closed', cid)
            return ready(err(Opaque('RecvError')))
        raise Unsupported('oneshot receiver %d polled but the obligation supplies no reply' % cid)
    if k == 'oneshot.closed' and isinstance(leaf.data, tuple) and leaf.data[0] == 'mailbox':
        # mpsc::Sender::closed(): resolves once the actor task has ended (its receiver is dropped)
        from t4 import sched_point
        yield from sched_point(ip, 'Sender::closed')
        live = getattr(p, 'live_mailbox', {}).get(leaf.data[1])
        if live is None:
            return PENDING
        rx, actor_act = live
        if actor_act.state == 'done':
            write_loc(loc, Leaf(k, leaf.data, True))
            return ready(UNIT)
        act = getattr(ip, 'activity', None)
        if act is not None and act not in actor_act.done_waiters:
            actor_act.done_waiters.append(act)
        return PENDING
    if k == 'oneshot.closed':
        # resolves only once the receiving side has gone away
        if getattr(p, 'receiver_dropped', False):
            write_loc(loc, Leaf(k, leaf.data, True))
            p.effect('ready', k, leaf.data)
            return ready(UNIT)
        return PENDING
    if k in ('sleep', 'notified', 'deleted', 'generic'):
        if k == 'sleep' and getattr(p, 'timers_never_fire', False):
            # ... except a sleep_until whose instant a history obligation has let pass (p.clock_floor): that timer has fired
            floor = getattr(p, 'clock_floor', None)
            d = leaf.data
            if floor is not None and isinstance(d, S) and d.ty == 'Instant' and p.check(z3.Not(floor >= d.t)) == z3.unsat:
                write_loc(loc, Leaf(k, leaf.data, True))
                p.effect('ready', k, leaf.data)
                return ready(UNIT)
            return PENDING
        if k == 'notified' and getattr(p, 'signals_never_fire', False):
            return PENDING
        phase = getattr(p, 'phase', None)
        if k == 'deleted' and getattr(p, 'deleted_by_oneshot', False):
            # Tier 4: the deletion signal is the shared one-shot of the observer
            from t4 import sched_point
            yield from sched_point(ip, 'Deleted::poll')
            cid = leaf.data
            if cid in getattr(p, 'sent', {}):
                write_loc(loc, Leaf(k, leaf.data, True))
                p.effect('ready', k, leaf.data)
                return ready(UNIT)
            act = getattr(ip, 'activity', None)
            if act is not None:
                w = getattr(p, 'oneshot_waiters', {})
                w.setdefault(cid, [])
                if act not in w[cid]:
                    w[cid].append(act)
                p.oneshot_waiters = w
            return PENDING
        if phase is None and k == 'deleted':
            return PENDING       # no deletion is part of this scenario
        if phase is not None and k == 'deleted':
            if phase == 'A':
                return PENDING
            write_loc(loc, Leaf(k, leaf.data, True))
            p.effect('ready', k, leaf.data)
            return ready(UNIT)
        if phase is not None and k == 'notified':
            created = leaf.data[1] if isinstance(leaf.data, tuple) else 'A'
            # notify_waiters() of the deletion reaches exactly the Notified futures created before it
            if not (phase == 'B' and created == 'A'):
                return PENDING
            write_loc(loc, Leaf(k, leaf.data, True))
            p.effect('ready', k, leaf.data)
            return ready(UNIT)
        if may_pend(ip, k):
            return PENDING
        write_loc(loc, Leaf(k, leaf.data, True))
        p.effect('ready', k, leaf.data)
        return ready(UNIT)
    if k == 'http.send':
        if may_pend(ip, 'http.send'):
            return PENDING
        write_loc(loc, Leaf(k, leaf.data, True))
        from models_sync import HttpResponseM
        # the endpoint's behaviour is arbitrary: any status code, or a transport error
        if p.choose(2, 'http outcome') == 1:
            p.effect('http.error', leaf.data)
            return ready(err(Opaque('reqwest::Error')))
        st = p.fresh('http_status')
        p.assume(z3.And(st >= 100, st <= 999))       # http::StatusCode invariant
        p.effect('http.response', st, leaf.data)
        return ready(ok(HttpResponseM(st)))
    if k == 'join_next':
        set_loc = leaf.data
        js = read_loc(set_loc)
        if not js.tasks:
            write_loc(loc, Leaf(k, leaf.data, True))
            return ready(NONE)
        if may_pend(ip, 'join_next'):
            return PENDING
        # any spawned task may finish first
        i = p.choose(len(js.tasks), 'join_next which')
        task = js.tasks[i]
        write_loc(set_loc, JoinSetM(js.tasks[:i] + js.tasks[i + 1:]))
        write_loc(loc, Leaf(k, leaf.data, True))
        cell = Cell(task, 'task')
        out = yield from drive(ip, Loc(cell))
        p.effect('task-joined', i)
        return ready(some(ok(out)))
    raise Unsupported('leaf future ' + k)
    yield


def drive(ip, loc, max_polls=12):
    """poll the future at `loc` until Ready (spawned tasks: the runtime always re-polls)"""
    for _ in range(max_polls):
        r = yield from poll_future(ip, loc)
        if r.discr == 0:
            return r.payload[0][0]
    raise OutOfBound('future not ready after %d polls' % max_polls)


class TimeoutM(Model):
    """tokio::time::timeout(d, fut): Ok(output) if fut completes first, Err(Elapsed) once the timer (a fresh one, started now) fires"""

    def __init__(self, fut, d):
        self.inner = Cell(fut, 'timeout-inner')
        self.timer = Cell(Leaf('sleep', d), 'timeout-timer')

    def ite(self, c, o):
        return self


class JoinHandleM(Model):
    """tokio::task::JoinHandle of a task started with tokio::spawn: the task runs on whether or not the handle is awaited or kept"""

    def __init__(self, fut):
        self.task = Cell(fut, 'spawned-task')
        self.out = None

    def ite(self, c, o):
        return self


class JoinAllM(Model):
    """futures::future::join_all / try_join_all over a concrete list of futures"""

    def __init__(self, futs, try_):
        self.cells = [Cell(f, 'join-all-%d' % i) for i, f in enumerate(futs)]
        self.outs = [None] * len(futs)
        self.try_ = try_

    def ite(self, c, o):
        return self


class SharedM(Model):
    """futures::future::Shared<F>: clones poll one underlying future; its output is kept for all of them"""

    def __init__(self, fut):
        self.inner = Cell(fut, 'shared-inner')
        self.state = Cell(None, 'shared-output')

    def ite(self, c, o):
        return self


def poll_future(ip, loc):
    """Future::poll on whatever lives at loc"""
    v = read_loc(loc)
    if isinstance(v, JoinHandleM):
        if v.out is None:
            r = yield from poll_future(ip, Loc(v.task))
            if r.discr != 0:
                return PENDING
            v.out = (r.payload[0][0],)
        return ready(ok(v.out[0]))
    if isinstance(v, JoinAllM):
        from models_coll import Seq
        pending = False
        for i, c in enumerate(v.cells):
            if v.outs[i] is not None:
                continue
            r = yield from poll_future(ip, Loc(c))
            if r.discr != 0:
                pending = True
                continue
            o = r.payload[0][0]
            if v.try_:
                from models_core import variant_of
                if variant_of(ip, o) == 1:
                    return ready(o)                       # the first error ends the whole join
                o = o.payload[0][0]
            v.outs[i] = (o,)
        if pending:
            return PENDING
        seq = Seq([x[0] for x in v.outs], len(v.outs), 'vec')
        return ready(ok(seq) if v.try_ else seq)
    if isinstance(v, TimeoutM):
        r = yield from poll_future(ip, Loc(v.inner))
        if r.discr == 0:
            return ready(ok(r.payload[0][0]))
        t = yield from poll_future(ip, Loc(v.timer))
        if t.discr == 0:
            return ready(err(Opaque('Elapsed')))
        return PENDING
    if isinstance(v, SharedM):
        if v.state.v is not None:
            return ready(v.state.v[0])
        r = yield from poll_future(ip, Loc(v.inner))
        if r.discr == 0:
            v.state.v = (r.payload[0][0],)
        return r
    if isinstance(v, Leaf):
        r = yield from poll_leaf(ip, loc, v)
        return r
    if isinstance(v, Enum) and v.name.startswith('coroutine:'):
        fn = ip.dump.functions[v.name[len('coroutine:'):]]
        pin = Agg('Pin', [Ref(loc, True)])
        r = yield from ip.call_fn(fn, [pin, Ref(Loc(Cell(Opaque('Context'), 'cx')), True)])
        return r
    if isinstance(v, Agg) and v.name == 'PollFn':
        # tokio::future::poll_fn: the stored closure is called with the task context
        clo_loc = loc.extend(('f', 0))
        r = yield from ip.call_closure(Ref(clo_loc, True), [Ref(Loc(Cell(Opaque('Context'), 'cx')), True)])
        return r
    if isinstance(v, Agg) and v.name == 'Pin':
        r = yield from poll_future(ip, v.fields[0].loc)
        return r
    if hasattr(v, 'deref_loc'):
        r = yield from poll_future(ip, v.deref_loc(ip))
        return r
    if isinstance(v, Ref):
        r = yield from poll_future(ip, v.loc)
        return r
    if isinstance(v, Agg) and v.name in ('MessagesAvailable', 'Deleted'):
        # crate wrappers with a hand-written poll
        fn = ip.ctx.fn(v.name, 'poll')
        pin = Agg('Pin', [Ref(loc, True)])
        r = yield from ip.call_fn(fn, [pin, Ref(Loc(Cell(Opaque('Context'), 'cx')), True)])
        return r
    raise Unsupported('poll of %r' % (v,))


def install(ctx):
    M = ctx.models
    _install_base(ctx)
    install_streams(ctx)


def _install_base(ctx):
    M = ctx.models

    @M.reg('mpsc::channel')
    def mpsc_channel(ip, pc, args, dt):
        ip.path.counter += 1
        cid = ip.path.counter
        ip.path.effect('mpsc.channel', cid, concrete_int(args[0].t))
        return Agg(None, [SenderM('new', z3.IntVal(cid)), Opaque('mpsc.Receiver', cid)])

    @M.reg('Sender::send')
    def sender_send(ip, pc, args, dt):
        s = args[0]
        if isinstance(s, Ref):
            s = read_loc(s.loc)
        if isinstance(s, SenderM):
            return Leaf('mpsc.send', (s, args[1]))
        if isinstance(s, OneshotTx):
            p = ip.path
            if getattr(p, 'receiver_dropped', False):
                p.effect('oneshot.send-failed', s.cid)
                return err(args[1])
            replies = getattr(p, 'sent', {})
            replies[s.cid] = args[1]
            p.sent = replies
            p.effect('oneshot.send', s.cid, args[1])
            if getattr(p, 'fp', None) is not None:
                p.fp.add(('oneshot-send',))
            for act in getattr(p, 'oneshot_waiters', {}).pop(s.cid, []):
                act.woken = True
                if act.state == 'parked':
                    act.state = 'ready'
            return ok(UNIT)
        raise Unsupported('send on %r' % (s,))

    @M.reg('Sender::try_send')
    def sender_try_send(ip, pc, args, dt):
        s = args[0]
        if isinstance(s, Ref):
            s = read_loc(s.loc)
        if not isinstance(s, SenderM):
            raise Unsupported('try_send on %r' % (s,))
        p = ip.path
        # a bounded mailbox may be full (or closed) at the moment of a non-blocking send
        k = p.choose(3 if getattr(p, 'allow_closed', False) else 2, 'try_send outcome')
        if k == 0:
            p.effect('enqueue', s.kind, s.tok, args[1])
            hook = getattr(ip.ctx, 'on_enqueue', None)
            if hook is not None:
                hook(ip, s, args[1])
            return ok(UNIT)
        p.effect('try_send-failed', s.kind, 'full' if k == 1 else 'closed')
        ev = Enum('TrySendError', 0 if k == 1 else 1, {0: (args[1],), 1: (args[1],)})
        return err(ev)

    @M.reg('Sender::closed')
    def sender_closed(ip, pc, args, dt):
        s = read_loc(args[0].loc)
        if isinstance(s, SenderM):
            return Leaf('oneshot.closed', ('mailbox', s.kind))
        return Leaf('oneshot.closed', getattr(s, 'cid', None))

    @M.reg('Sender::is_closed')
    def sender_is_closed(ip, pc, args, dt):
        return bool_s(z3.BoolVal(bool(getattr(ip.path, 'receiver_dropped', False))))

    @M.reg('oneshot::channel')
    def oneshot_channel(ip, pc, args, dt):
        ip.path.counter += 1
        cid = ip.path.counter
        return Agg(None, [OneshotTx(cid), OneshotRx(cid)])

    @M.reg('<IntoFuture>::into_future')
    def into_future(ip, pc, args, dt):
        v = args[0]
        if isinstance(v, OneshotRx):
            return Leaf('oneshot.recv', v.cid)
        return v

    @M.reg('Pin::new_unchecked', 'Pin::new')
    def pin_new(ip, pc, args, dt):
        return Agg('Pin', [args[0]])

    @M.reg('Pin::as_mut', 'Pin::as_ref')
    def pin_as_mut(ip, pc, args, dt):
        pin = read_loc(args[0].loc)
        while isinstance(pin, Ref):
            pin = read_loc(pin.loc)
        if not isinstance(pin, Agg) and hasattr(pin, 'deref_loc'):
            return Agg('Pin', [Ref(pin.deref_loc(ip), True)])        # Pin<Box<T>> is represented by the box itself
        inner = pin.fields[0]
        if isinstance(inner, Ref):
            return Agg('Pin', [inner])
        if hasattr(inner, 'deref_loc'):
            return Agg('Pin', [Ref(inner.deref_loc(ip), True)])
        raise Unsupported('Pin::as_mut on %r' % (pin,))

    @M.reg('Pin::get_mut', 'Pin::get_unchecked_mut', 'Pin::get_ref', 'Pin::into_inner')
    def pin_get_mut(ip, pc, args, dt):
        return args[0].fields[0]

    @M.reg('Pin::map_unchecked_mut')
    def pin_map(ip, pc, args, dt):
        pin, f = args
        r = yield from ip.call_closure(f, [pin.fields[0]])
        return Agg('Pin', [r])

    @M.reg('<Future>::poll', 'Future::poll')
    def future_poll(ip, pc, args, dt):
        pin = args[0]
        r = yield from poll_future(ip, pin.fields[0].loc if isinstance(pin, Agg) else pin.loc)
        return r

    @M.reg('poll_fn::poll_fn', 'poll_fn')
    def poll_fn(ip, pc, args, dt):
        return Agg('PollFn', [args[0]])

    @M.reg('support::thread_rng_n', 'thread_rng_n')
    def thread_rng_n(ip, pc, args, dt):
        n = concrete_int(args[0].t)
        k = 0 if getattr(ip.path, 'select_in_order', False) else ip.path.choose(n, 'select start')
        ip.path.effect('select-start', k)
        return mk_int(k, 'u32')

    @M.reg('JoinSet::new')
    def joinset_new(ip, pc, args, dt):
        return JoinSetM()

    @M.reg('JoinSet::spawn')
    def joinset_spawn(ip, pc, args, dt):
        r, fut = args
        js = read_loc(r.loc)
        write_loc(r.loc, JoinSetM(js.tasks + (fut,)))
        ip.path.effect('joinset.spawn', fut)
        return Opaque('AbortHandle')

    @M.reg('JoinSet::join_next')
    def joinset_join_next(ip, pc, args, dt):
        return Leaf('join_next', args[0].loc)

    @M.reg('tokio::spawn', 'task::spawn', '::spawn')
    def tokio_spawn(ip, pc, args, dt):
        ip.path.effect('spawn', args[0])
        h = JoinHandleM(args[0])
        sp = getattr(ip.path, 'spawned_handles', [])
        sp.append(h)
        ip.path.spawned_handles = sp
        return h

    @M.reg('future::try_join_all', 'try_join_all::try_join_all', 'future::join_all', 'join_all::join_all', 'try_join_all', 'join_all')
    def join_all(ip, pc, args, dt):
        from models_coll import as_window, iter_next
        from models_core import variant_of
        it = as_window(ip, args[0])
        futs = []
        for _ in range(ip.unroll + 2):
            it, o = yield from iter_next(ip, it)
            if variant_of(ip, o) == 0:
                return JoinAllM(futs, pc['method'] == 'try_join_all')
            futs.append(o.payload[1][0])
        raise OutOfBound('join_all unrolling')

    @M.reg('time::timeout', 'tokio::time::timeout', 'timeout::timeout')
    def time_timeout(ip, pc, args, dt):
        ip.path.effect('sleep', args[0])
        return TimeoutM(args[1], args[0])

    @M.reg('time::sleep', 'time::sleep_until', 'tokio::time::sleep', 'sleep::sleep', 'sleep::sleep_until')
    def sleep(ip, pc, args, dt):
        ip.path.effect(pc['method'], args[0])
        return Leaf('sleep', args[0])

    @M.reg('Notify::notified')
    def notified(ip, pc, args, dt):
        n = read_loc(args[0].loc)
        ip.path.effect('notified()', n.name)
        ph = getattr(ip.path, 'phase', None)
        return Leaf('notified', (n.name, ph) if ph is not None else n.name)


# ====================================================================== streams (async_stream / tokio_stream / tonic Streaming)

class YieldTx(Model):
    """async_stream's yielder sender: yielded values land in `slot` (a python list)"""

    def __init__(self, slot):
        self.slot = slot


class AsyncStreamM(Model):
    def __init__(self, gen_cell, slot):
        self.gen_cell = gen_cell
        self.slot = slot
        self.done = False


class MergeM(Model):
    def __init__(self, a, b):
        self.a, self.b = a, b


class ReceiverM(Model):
    """mpsc::Receiver of an actor: `items` are the requests already in the mailbox"""

    def __init__(self, items, closed=False):
        self.items = list(items)
        self.closed = closed


class StreamingM(Model):
    """tonic::Streaming<T>: the client's request stream; `items` are still to come, then it stays open or ends"""

    def __init__(self, items, ends=False):
        self.items = list(items)
        self.ends = ends


def poll_stream_next(ip, st):
    """Stream::poll_next on an AsyncStreamM: resume the generator; an item if it yielded, None when it finished"""
    if st.done:
        return ready(NONE)
    del st.slot[:]
    r = yield from poll_future(ip, Loc(st.gen_cell))
    if st.slot:
        v = st.slot.pop(0)
        return ready(some(v))
    if r.discr == 0:
        st.done = True
        return ready(NONE)
    return PENDING


def install_streams(ctx):
    M = ctx.models

    @M.reg('yielder::pair', 'async_stream::yielder::pair')
    def yielder_pair(ip, pc, args, dt):
        slot = []
        return Agg(None, [YieldTx(slot), Opaque('yield-rx', slot)])

    @M.reg('AsyncStream::new')
    def async_stream_new(ip, pc, args, dt):
        rx, gen = args
        return AsyncStreamM(Cell(gen, 'generator'), rx.data)

    prev_send = M.table.get('Sender::send')

    @M.reg('Sender::send')
    def yield_send(ip, pc, args, dt):
        s = args[0]
        if isinstance(s, Ref):
            s = read_loc(s.loc)
        if isinstance(s, YieldTx):
            return Leaf('yield', (s, args[1], [False]))
        return prev_send(ip, pc, args, dt)

    @M.reg('Poll::map')
    def poll_map(ip, pc, args, dt):
        pl, f = args
        if pl.discr == 1:
            return pl
        r = yield from ip.call_closure(f, [pl.payload[0][0]])
        return ready(r)

    @M.reg('Poll::is_ready', 'Poll::is_pending')
    def poll_is(ip, pc, args, dt):
        pl = read_loc(args[0].loc)
        return bool_s(z3.BoolVal((pl.discr == 0) == (pc['method'] == 'is_ready')))

    @M.reg('Receiver::recv')
    def receiver_recv(ip, pc, args, dt):
        return Leaf('mpsc.recv', args[0])

    @M.reg('<StreamExt>::merge')
    def stream_merge(ip, pc, args, dt):
        return MergeM(args[0], args[1])

    @M.reg('<StreamExt>::next')
    def stream_next(ip, pc, args, dt):
        return Leaf('stream.next', args[0])


_prev_poll_leaf = poll_leaf


def poll_leaf(ip, loc, leaf):          # noqa: F811  (extends the leaf kinds above)
    p = ip.path
    if leaf.kind == 'yield':
        tx, value, state = leaf.data
        if not state[0]:
            # first poll: hand the value to the stream and suspend
            state[0] = True
            tx.slot.append(value)
            p.effect('yield', value)
            return PENDING
        write_loc(loc, Leaf('yield', leaf.data, True))
        return ready(UNIT)
    if leaf.kind == 'mpsc.recv':
        rx = read_loc(leaf.data.loc) if isinstance(leaf.data, Ref) else leaf.data
        if getattr(ip, 'activity', None) is not None:
            from t4 import sched_point
            yield from sched_point(ip, 'mailbox recv')
            if getattr(p, 'fp', None) is not None:
                p.fp.add(('mailbox', 'recv'))
        if rx.items:
            v = rx.items.pop(0)
            write_loc(loc, Leaf('mpsc.recv', leaf.data, True))
            p.effect('dequeue', v)
            return ready(some(v))
        if rx.closed:
            write_loc(loc, Leaf('mpsc.recv', leaf.data, True))
            return ready(NONE)
        return PENDING
    if leaf.kind == 'stream.next':
        sref = leaf.data
        st = read_loc(sref.loc) if isinstance(sref, Ref) else sref
        if isinstance(st, StreamingM):
            if st.items:
                v = st.items.pop(0)
                write_loc(loc, Leaf('stream.next', leaf.data, True))
                p.effect('stream-item', len(st.items))
                return ready(some(ok(v)))
            if st.ends:
                write_loc(loc, Leaf('stream.next', leaf.data, True))
                return ready(NONE)
            return PENDING         # the client keeps its request stream open and silent
        raise Unsupported('next() on %r' % (st,))
    r = yield from _prev_poll_leaf(ip, loc, leaf)
    return r
