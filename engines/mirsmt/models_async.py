"""Contract models of tokio mpsc / oneshot / JoinSet / spawn as leaf futures (Tier 3).
A leaf future's `poll` returns a nondeterministic Pending / Ready; every externally
visible effect is appended to the path's effect log."""
import z3
from values import *


class SenderM(Model):
    """mpsc::Sender of an actor mailbox ('topic' / 'subscription', token)"""

    def __init__(self, kind, tok):
        self.kind = kind
        self.tok = tok

    def ite(self, c, o):
        return SenderM(self.kind, z3.If(c, self.tok, o.tok))

    def __repr__(self):
        return 'Sender(%s %s)' % (self.kind, self.tok)


def install(ctx):
    pass
