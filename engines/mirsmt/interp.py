"""Symbolic executor for MIR bodies (generator-based, re-execution forking).

* `Path` holds the path condition, the decision prefix that is being replayed,
  the effect log and the fresh-name counter.  Forking = recording the untaken
  alternative as a new decision prefix; the explorer re-executes from the start.
* `Interp.call_fn` / `Interp.call` are generators: a `yield` hands a scheduling
  point to whoever drives the activity (Tier 4); Tier 1-3 drivers ignore them.
"""
import re
import z3
from values import *
from mirparse import (Dump, Function, Place, Operand, Rvalue, Stmt, Term, split_top,
                      match_close, strip_generics)

MAX_STEPS = 200000


# ====================================================================== Path

class Path:
    def __init__(self, explorer, decisions):
        self.ex = explorer
        self.dec = list(decisions)
        self.pos = 0
        self.pc = []
        self.log = []
        self.counter = 0
        self.solver = explorer.solver
        self.solver.reset()
        self.steps = 0
        self.notes = []
        self.loop_counts = {}

    # -- constraints
    def assume(self, c):
        c = z3.simplify(c) if not isinstance(c, bool) else z3.BoolVal(c)
        if z3.is_true(c):
            return
        if z3.is_false(c):
            raise Infeasible()
        self.pc.append(c)
        self.solver.add(c)

    def fresh(self, name, sort='int'):
        self.counter += 1
        n = '%s!%d' % (name, self.counter)
        if sort == 'int':
            return z3.Int(n)
        if sort == 'bool':
            return z3.Bool(n)
        if isinstance(sort, int):
            return z3.BitVec(n, sort)
        raise ValueError(sort)

    def check(self, extra=None):
        self.ex.queries += 1
        if extra is None:
            return self.solver.check()
        self.solver.push()
        self.solver.add(extra)
        r = self.solver.check()
        self.solver.pop()
        return r

    def feasible(self, c):
        r = self.check(c)
        if r == z3.unknown:
            raise Unsupported('solver returned unknown on a feasibility query')
        return r == z3.sat

    # -- decisions
    def branch(self, cond, label=''):
        """Decide a symbolic condition: returns python bool and extends pc."""
        if isinstance(cond, bool):
            return cond
        c = z3.simplify(cond)
        if z3.is_true(c):
            return True
        if z3.is_false(c):
            return False
        if self.pos < len(self.dec):
            d = self.dec[self.pos]
            self.pos += 1
        else:
            ft = self.feasible(c)
            ff = self.feasible(z3.Not(c))
            if ft and ff:
                self.ex.push_alt(self.dec + [False])
                d = True
            elif ft:
                d = True
            elif ff:
                d = False
            else:
                raise Infeasible()
            self.dec.append(d)
            self.pos += 1
        self.assume(c if d else z3.Not(c))
        return d

    def choose(self, n, label=''):
        """Pure nondeterministic choice among n alternatives (no condition)."""
        if n == 1:
            return 0
        if self.pos < len(self.dec):
            d = self.dec[self.pos]
            self.pos += 1
            return d
        for k in range(n - 1, 0, -1):
            self.ex.push_alt(self.dec + [k])
        self.dec.append(0)
        self.pos += 1
        return 0

    def effect(self, *ev):
        self.log.append(ev)


class Explorer:
    """depth-first enumeration of paths by re-execution"""

    def __init__(self, timeout_ms=60000):
        self.solver = z3.Solver()
        self.solver.set('timeout', timeout_ms)
        self.work = []
        self.queries = 0
        self.paths = 0

    def push_alt(self, dec):
        self.work.append(dec)

    def run(self, body, max_paths=20000):
        """body(path) executes one path (may raise Infeasible/OutOfBound).  Yields
        (path, outcome, payload) for every explored path."""
        self.work = [[]]
        while self.work:
            dec = self.work.pop()
            p = Path(self, dec)
            self.paths += 1
            if self.paths > max_paths:
                raise Unsupported('path budget exceeded (%d)' % max_paths)
            try:
                res = body(p)
                yield p, 'ok', res
            except Infeasible:
                yield p, 'infeasible', None
            except OutOfBound as e:
                yield p, 'outofbound', str(e)
            except PanicPath as e:
                yield p, 'panic', e


# ====================================================================== helpers

def _drop_responders(path, v, depth=0):
    """Tier 4 with live one-shots: a value that is dropped takes the reply senders it (still) owns with it"""
    if depth > 4:
        return
    name = type(v).__name__
    if name == 'OneshotTx':
        if v.cid not in getattr(path, 'sent', {}):
            d = getattr(path, 'dropped_tx', set())
            d.add(v.cid)
            path.dropped_tx = d
            for w in getattr(path, 'oneshot_waiters', {}).get(v.cid, []):
                w.woken = True
                if w.state == 'parked':
                    w.state = 'ready'
        return
    if isinstance(v, Enum):
        for pl in v.payload.values():
            for x in pl:
                _drop_responders(path, x, depth + 1)
    elif isinstance(v, Agg):
        for x in v.fields:
            _drop_responders(path, x, depth + 1)


def bool_s(t):
    return S(t, 'bool')


def mk_int(v, ty):
    return S(z3.IntVal(v), ty)


def is_concrete(t):
    t = z3.simplify(t)
    return z3.is_int_value(t) or z3.is_true(t) or z3.is_false(t)


def concrete_int(t):
    t = z3.simplify(t)
    if z3.is_int_value(t):
        return t.as_long()
    if z3.is_true(t):
        return 1
    if z3.is_false(t):
        return 0
    return None


def wrap_int(t, ty):
    """reduce a mathematical integer to the range of `ty` (two's complement)"""
    w, signed = INT_TYPES[ty]
    m = 1 << w
    if signed:
        h = 1 << (w - 1)
        return ((t + h) % m) - h
    return t % m


def parse_callee(text):
    """-> dict(qself, trait, segs, method, generics) from a printed callee path"""
    t = text.strip()
    out = {'raw': t, 'qself': None, 'trait': None}
    if t.startswith('<'):
        j = match_close(t, 0)
        inner = t[1:j]
        rest = t[j + 1:]
        # split `A as B` at top level
        depth = 0
        k = None
        i = 0
        while i < len(inner):
            c = inner[i]
            if c in '<([{':
                depth += 1
            elif c in ')]}':
                depth -= 1
            elif c == '>' and not (i > 0 and inner[i - 1] in '-='):
                depth -= 1
            elif depth == 0 and inner.startswith(' as ', i):
                k = i
            i += 1
        if k is not None:
            out['qself'] = inner[:k].strip()
            out['trait'] = strip_generics(inner[k + 4:].strip())
            out['trait_raw'] = inner[k + 4:].strip()
        else:
            out['qself'] = inner.strip()
        rest = strip_generics(rest)
        segs = [s for s in rest.split('::') if s]
        out['segs'] = segs[:-1]
        out['method'] = segs[-1] if segs else ''
        return out
    flat = strip_generics(t)
    segs = [s for s in flat.split('::') if s]
    out['segs'] = segs[:-1]
    out['method'] = segs[-1]
    return out


def last_type_name(ty):
    """`subscriptions::ack_id::AckId` -> `AckId`; `&mut Foo<..>` -> `Foo`"""
    t = ty.strip()
    while t.startswith('&'):
        t = t[1:].strip()
        if t.startswith('mut '):
            t = t[4:]
        if t.startswith("'"):
            t = t.split(' ', 1)[1] if ' ' in t else t
    t = strip_generics(t)
    return t.split('::')[-1].strip()


# ====================================================================== function index

class FnIndex:
    def __init__(self, dump, src):
        self.dump = dump
        self.src = src
        self.methods = {}    # (selftype, trait, method) -> [Function]
        self.free = {}       # last segment -> [Function]
        self.closures = {}   # closure/coroutine key text -> Function
        self.by_suffix = {}
        for name, fn in dump.functions.items():
            self._index(name, fn)

    def _index(self, name, fn):
        m = re.search(r'<impl at ([^:>]+):(\d+):(\d+): \d+:\d+>::(.*)$', name)
        hdr = fn.header
        # closures / coroutine bodies: keyed by the type of their first parameter
        if '{closure#' in name.split('::')[-1] or re.search(r'\{closure#\d+\}$', name):
            pm = re.match(r'fn .*?\(_1: (.*?)(, _2: |\) -> |\)$)', hdr[len('fn ') - 3:] if False else hdr, re.S)
            key = self._closure_key(hdr, name)
            if key:
                self.closures.setdefault(key, fn)
            return
        if m:
            file, line, col, rest = m.group(1), int(m.group(2)), int(m.group(3)), m.group(4)
            info = self.src.impl_info(file, line, col)
            method = rest
            if info:
                tr, ty, derived = info
                fn.impl_info = (tr, ty, derived, file)
                self.methods.setdefault((ty, tr, method), []).append(fn)
                self.methods.setdefault((ty, '*', method), []).append(fn)
            return
        segs = name.split('::')
        self.free.setdefault(segs[-1], []).append(fn)

    @staticmethod
    def _closure_key(hdr, name):
        # first parameter type, with `&`, `&mut`, `Pin<&mut ..>` peeled
        i = hdr.index('(_1: ') + 5
        # scan to the top-level ', _2:' or ')' end
        depth = 0
        j = i
        while j < len(hdr):
            c = hdr[j]
            if c in '([{<':
                depth += 1
            elif c in ')]}':
                if depth == 0:
                    break
                depth -= 1
            elif c == '>' and hdr[j - 1] not in '-=':
                depth -= 1
            elif c == ',' and depth == 0:
                break
            j += 1
        ty = hdr[i:j].strip()
        return norm_closure_ty(ty)

    def coroutine_body(self, creator, head, names=None):
        if creator is None:
            return None
        base = creator.name
        kids = [f for n, f in self.dump.functions.items()
                if n.startswith(base + '::{closure#') and n[len(base) + 2:].count('::') == 0]
        if not kids:
            return None
        creator.parse()
        if (creator.ret or '').startswith('{async fn body of') or len(kids) == 1:
            for f in kids:
                if f.name.endswith('{closure#0}'):
                    return f
        m = re.match(r'\{coroutine@(.*?)( \(#\d+\))?\}$', head.strip())
        span = m.group(1) if m else None
        if span:
            cands = [f for f in kids if span in f.header]
            if len(cands) > 1 and names:
                want = set(names)
                exact = [f for f in cands if set(f.parse().upvar_names.values()) == want]
                cands = exact or [f for f in cands if set(f.parse().upvar_names.values()) <= want]
            if cands:
                return cands[0]
        return None

    def resolve(self, pc, argvals=None):
        """find the MIR function for a parsed callee, or None"""
        method = pc['method']
        if pc['qself'] is not None:
            ty = last_type_name(pc['qself'])
            tr = pc['trait'].split('::')[-1] if pc['trait'] else None
            c = self.methods.get((ty, tr, method)) or (self.methods.get((ty, '*', method)) if tr is None else None)
            if c:
                return self._pick(c, pc)
            return None
        segs = pc['segs']
        if segs:
            ty = segs[-1]
            c = self.methods.get((ty, None, method)) or self.methods.get((ty, '*', method))
            if c:
                return self._pick(c, pc)
        c = self.free.get(method)
        if c:
            # free function: all given segments must be a suffix of the name's segments
            want = segs + [method]
            good = [f for f in c if f.name.split('::')[-len(want):] == want] or \
                   ([f for f in c if len(segs) == 0])
            if len(good) == 1:
                return good[0]
            if len(good) > 1:
                # prefer exact
                ex = [f for f in good if f.name == '::'.join(want)]
                return (ex or good)[0]
        return None

    def _pick(self, cands, pc):
        if len(cands) == 1:
            return cands[0]
        hint = pc['segs'][:-1] if pc['qself'] is None else [s for s in re.split(r'::', strip_generics(pc['qself']))][:-1]
        best, score = None, -1
        for f in cands:
            file = f.impl_info[3]
            parts = re.split(r'[/\.]+', file)
            sc = sum(1 for h in hint if h in parts)
            if sc > score:
                best, score = f, sc
        return best


def norm_closure_ty(ty):
    t = ty.strip()
    changed = True
    while changed:
        changed = False
        for pre in ('&mut ', '&'):
            if t.startswith(pre):
                t = t[len(pre):].strip()
                changed = True
        if t.startswith('Pin<') or t.startswith('std::pin::Pin<'):
            i = t.index('<')
            t = t[i + 1:match_close(t, i)].strip()
            changed = True
    return t


# ====================================================================== interpreter

class Frame:
    __slots__ = ('fn', 'cells')

    def __init__(self, fn):
        self.fn = fn
        self.cells = {}

    def cell(self, local):
        c = self.cells.get(local)
        if c is None:
            c = Cell(None, '_%d@%s' % (local, self.fn.name.split('::')[-1]))
            self.cells[local] = c
        return c


class Interp:
    def __init__(self, ctx, path, unroll=8):
        self.ctx = ctx              # shared per-run context (dump, index, models)
        self.dump = ctx.dump
        self.index = ctx.index
        self.src = ctx.src
        self.path = path
        self.unroll = unroll
        self.depth = 0
        self.trace = ctx.trace
        self.hooks = {}             # callee-regex -> python observer (Tier 2 observation)
        self.encoded = ctx.encoded  # set of function names executed (evidence)

    # ------------------------------------------------------------ constants
    def eval_const(self, text, want_ty=None):
        t = text.strip()
        if t in ('true', 'false'):
            return S(z3.BoolVal(t == 'true'), 'bool')
        if t == '()':
            return UNIT
        m = re.match(r'^(-?[\d_]+)_?(u8|u16|u32|u64|u128|usize|i8|i16|i32|i64|i128|isize)$', t)
        if m:
            return S(z3.IntVal(int(m.group(1).replace('_', ''))), m.group(2))
        if t.startswith('b"'):
            return Ref(Loc(Cell(Opaque('bytes', eval(t)), 'bytes-const')))
        if t.startswith('"'):
            from models_str import const_str
            return const_str(self, eval('b' + t) if _safe_lit(t) else t[1:-1].encode())
        if t.startswith("'"):
            body = t[1:-1]
            ch = eval("'" + body.replace('\\u{', '\\u{') + "'") if not body.startswith('\\u{') else chr(int(body[3:-1], 16))
            return S(z3.IntVal(ord(ch)), 'char')
        if t.startswith('fn '):
            return FnItem(t[3:])
        if t.startswith('ZeroSized: '):
            ty = t[len('ZeroSized: '):]
            if ty.startswith('{closure@') or ty.startswith('{coroutine@'):
                return Closure(norm_closure_ty(ty), [])
            m = re.match(r'.*\{(.*)\}$', ty)
            if m and ty.startswith(('fn(', 'for<', 'unsafe fn', 'extern')):
                return FnItem(m.group(1))
            return Opaque('zst', ty)
        m = re.match(r'^\{(alloc\d+)(?:\+0x[0-9a-f]+)?: (.*)\}$', t)
        if m:
            return self.eval_alloc(m.group(1), m.group(2))
        if t.startswith('<') and re.search(r'::(promoted\[\d+\]|[A-Z][A-Z0-9_]*)$', t):
            # `<T as Trait>::method[::{closure#k}..]::ITEM` - an associated / nested const of a crate function
            pcc = parse_callee(t.rsplit('::', 1)[0])
            item = t.rsplit('::', 1)[1]
            suffix = ''
            if pcc['segs']:
                tail = pcc['segs'][1:] + [pcc['method']]
                pcc = dict(pcc, method=pcc['segs'][0], segs=[])
                suffix = '::' + '::'.join(tail)
            fnc = self.index.resolve(pcc)
            if fnc is not None:
                full = fnc.name + suffix + '::' + item
                if full in self.dump.const_inline:
                    return self.eval_const(self.dump.const_inline[full])
                cf = self.dump.consts.get(full)
                if cf is not None:
                    key = ('const', cf.name)
                    if key not in self.ctx.const_cache:
                        self.ctx.const_cache[key] = run_to_end(self.call_fn(cf, []))
                    return self.ctx.const_cache[key]
            if 'promoted[' in item or item == 'BRANCHES':
                raise Unsupported('nested constant not resolved: ' + t)
        so = _select_out(t)
        if so is not None:
            return Enum('SelectOut%d' % so[1], so[0], {so[0]: ()})
        mnum = re.match(r'^(?:core|std)::num::<impl (\w+)>::(MAX|MIN|BITS)$', t) or re.match(r'^(u8|u16|u32|u64|u128|usize|i8|i16|i32|i64|i128|isize)::(MAX|MIN|BITS)$', t)
        if mnum and mnum.group(1) in INT_TYPES:
            lo_, hi_ = int_range(mnum.group(1))
            if mnum.group(2) == 'BITS':
                return S(z3.IntVal(INT_TYPES[mnum.group(1)][0]), 'u32')
            return S(z3.IntVal(hi_ if mnum.group(2) == 'MAX' else lo_), mnum.group(1))
        # unit enum variants
        flat = strip_generics(t)
        segs = flat.split('::')
        if segs[-1] == 'None' and 'Option' in flat:
            return Enum('Option', 0)
        if len(segs) >= 2 and segs[-2] == 'Ordering' and segs[-1] in ('Less', 'Equal', 'Greater'):
            return Enum('Ordering', {'Less': -1, 'Equal': 0, 'Greater': 1}[segs[-1]])
        # named constant of the crate: the exact printed name first (nested consts of macro expansions - `BRANCHES` of every
        # tokio::select! - share their last segments with those of other functions)
        if t in self.dump.const_inline:
            return self.eval_const(self.dump.const_inline[t])
        if t in self.dump.consts:
            key = ('const', t)
            if key not in self.ctx.const_cache:
                self.ctx.const_cache[key] = run_to_end(self.call_fn(self.dump.consts[t], []))
            return self.ctx.const_cache[key]
        c = self.lookup_const(flat)
        if c is not None:
            return c
        if len(segs) >= 2:
            ev = self.src.enum_variants(segs[-2], '::'.join(segs[:-2]))
            if ev:
                for i, (vn, vf) in enumerate(ev):
                    if vn == segs[-1]:
                        return Enum(segs[-2], i, {i: ()})
        hook = self.ctx.const_models.get(flat)
        if hook is not None:
            return hook(self)
        return Opaque('const', t)

    def lookup_const(self, flat):
        segs0 = flat.split('::')
        # `module::Type::method::{closure#k}..::ITEM` as printed at the use site  <->  `module::<impl at file:l:c: ..>::method::..::ITEM`
        # as printed at the definition: matched through the self type of that impl block
        impl_hits = []
        for table in (self.dump.const_inline, self.dump.consts):
            for name in table:
                m = re.match(r'^(?:.*?::)?<impl at ([^:>]+):(\d+):(\d+): [^>]*>::(.*)$', name)
                if not m or name.split('::')[-1] != segs0[-1]:
                    continue
                info = self.src.impl_info(m.group(1), int(m.group(2)), int(m.group(3)))
                if not info:
                    continue
                want = [last_type_name(info[1])] + m.group(4).split('::')
                if segs0[-len(want):] == want:
                    impl_hits.append((name, table))
        if len(impl_hits) == 1:
            name, table = impl_hits[0]
            if table is self.dump.const_inline:
                return self.eval_const(table[name])
            key = ('const', name)
            if key not in self.ctx.const_cache:
                self.ctx.const_cache[key] = run_to_end(self.call_fn(table[name], []))
            return self.ctx.const_cache[key]
        if len(impl_hits) > 1:
            raise Unsupported('constant %s is ambiguous: %s' % (flat, ', '.join(x[0] for x in impl_hits)[:200]))
        hits = []
        for name, txt in self.dump.const_inline.items():
            ns = name.split('::')
            if ns[-1] == segs0[-1] and '<impl' not in name and (len(segs0) == 1 or len(ns) == 1 or ns[-2] == segs0[-2]
                                                                    or ns[-len(segs0):] == segs0 or segs0[-len(ns):] == ns):
                hits.append((name, txt))
        if hits:
            exact = [h for h in hits if h[0].split('::')[-len(segs0):] == segs0]
            pick = exact or hits
            if len(set(x[1] for x in pick)) > 1:
                raise Unsupported('constant %s is ambiguous: %s' % (flat, ', '.join(x[0] for x in pick)[:200]))
            return self.eval_const(pick[0][1])
        cs = self.dump.consts
        fn = cs.get(flat)
        if fn is None and 'promoted[' in flat:
            segs = flat.split('::')
            cands = [f for name, f in cs.items() if name.split('::')[-2:] == segs[-2:]]
            if len(cands) > 1:
                c2 = [f for f in cands if any(sg in f.name.split('::')[0:2] or ('/' + sg + '.rs') in f.name for sg in segs[:-2])]
                cands = c2 or cands
            if len(cands) > 1:
                # closures: promoted[k] in X::{closure#0}: compare the full tail after the impl marker
                tail = '::'.join(segs[-3:])
                c3 = [f for f in cands if f.name.endswith(tail)]
                cands = c3 or cands
            fn = cands[0] if cands else None
        if fn is None:
            segs = flat.split('::')
            for name, f in cs.items():
                ns = name.split('::')
                if ns[-1] == segs[-1] and (len(segs) == 1 or ns[-len(segs):] == segs or segs[-len(ns):] == ns):
                    fn = f
                    break
        if fn is None:
            return None
        key = ('const', fn.name)
        if key in self.ctx.const_cache:
            return self.ctx.const_cache[key]
        v = run_to_end(self.call_fn(fn, []))
        self.ctx.const_cache[key] = v
        return v

    def eval_alloc(self, aid, ty):
        info = self.dump.allocs.get(aid)
        if info is None:
            return Opaque('alloc', aid)
        if 'static' in info:
            name = info['static']
            hook = self.ctx.static_models.get(name.split('::')[-1])
            if hook is not None:
                return Ref(Loc(Cell(hook(self), 'static ' + name)))
            v = self.lookup_const(name)
            if v is None:
                return Ref(Loc(Cell(Opaque('static', name), 'static ' + name)))
            return Ref(Loc(Cell(v, 'static ' + name)))
        return Opaque('alloc', (aid, ty))

    # ------------------------------------------------------------ places
    def place_loc(self, frame, place):
        loc = Loc(frame.cell(place.local))
        proj = place.proj
        i = 0
        n = len(proj)
        while i < n:
            p = proj[i]
            if p[0] == 'deref':
                v = read_loc(loc)
                loc = self.deref(v)
            elif p[0] == 'field':
                loc = loc.extend(('f', p[1]))
            elif p[0] == 'downcast':
                var = p[1]
                if not isinstance(var, int):
                    var = self.variant_index(read_loc(loc), var)
                if i + 1 < n and proj[i + 1][0] == 'field':
                    loc = loc.extend(('vf', (var, proj[i + 1][1])))
                    i += 1
                else:
                    loc = loc.extend(('v', var))
            elif p[0] == 'index':
                idx = read_loc(Loc(frame.cell(p[1])))
                loc = loc.extend(('i', idx))
            elif p[0] == 'constindex':
                if p[3]:
                    raise Unsupported('from-end constant index')
                loc = loc.extend(('i', mk_int(p[1], 'usize')))
            else:
                raise Unsupported('projection %r' % (p,))
            i += 1
        return loc

    def deref(self, v):
        if isinstance(v, Ref):
            return v.loc
        if hasattr(v, 'deref_loc'):
            return v.deref_loc(self)
        raise Unsupported('deref of %r' % (v,))

    def variant_index(self, v, name):
        std = {'None': 0, 'Some': 1, 'Ok': 0, 'Err': 1, 'Ready': 0, 'Pending': 1,
               'Less': -1, 'Equal': 0, 'Greater': 1, 'Continue': 0, 'Break': 1,
               'Occupied': 0, 'Vacant': 1, 'Left': 0, 'Right': 1, 'Full': 0, 'Closed': 1}
        ename = v.name if isinstance(v, Enum) else None
        if ename and ename.startswith('SelectOut'):
            if name == 'Disabled':
                return int(ename[len('SelectOut'):])
            return int(name[1:])
        if ename in ('Option', 'Result', 'Poll', 'Ordering', 'ControlFlow', 'Entry', 'TrySendError', None) and name in std:
            return std[name]
        ev = self.src.enum_variants(ename)
        if ev:
            for i, (vn, _) in enumerate(ev):
                if vn == name:
                    return i
        if name in std:
            return std[name]
        raise Unsupported('variant %s of %r' % (name, ename))

    def read_place(self, frame, place):
        return read_loc(self.place_loc(frame, place))

    def eval_operand(self, frame, op):
        if op.kind == 'const':
            return self.eval_const(op.const)
        v = self.read_place(frame, op.place)
        if v is None:
            raise Unsupported('read of uninitialised %r in %s' % (op.place, frame.fn.name))
        return v

    # ------------------------------------------------------------ rvalues
    def eval_rvalue(self, frame, rv, dest_ty):
        k = rv.kind
        if k == 'use':
            return self.eval_operand(frame, rv.args[0])
        if k == 'ref':
            return Ref(self.place_loc(frame, rv.args[0]), rv.extra in ('mut', 'raw_mut'))
        if k == 'binop':
            a = self.eval_operand(frame, rv.args[0])
            b = self.eval_operand(frame, rv.args[1])
            return self.binop(rv.extra, a, b)
        if k == 'unop':
            a = self.eval_operand(frame, rv.args[0])
            if rv.extra == 'Not':
                if a.ty == 'bool':
                    return S(z3.Not(a.t), 'bool')
                lo, hi = int_range(a.ty)
                if lo == 0:
                    return S(hi - a.t, a.ty)
                return S(-a.t - 1, a.ty)
            if rv.extra == 'Neg':
                return S(wrap_int(-a.t, a.ty), a.ty)
            if rv.extra == 'PtrMetadata':
                tgt = a
                if isinstance(a, Ref):
                    tgt = read_loc(a.loc)
                if hasattr(tgt, 'length'):
                    return tgt.length()
                raise Unsupported('PtrMetadata of %r' % (tgt,))
            raise Unsupported('unop ' + rv.extra)
        if k == 'cast':
            a = self.eval_operand(frame, rv.args[0])
            ty, kind = rv.extra
            return self.cast(a, ty, kind)
        if k == 'discriminant':
            v = self.read_place(frame, rv.args[0])
            if not isinstance(v, Enum):
                raise Unsupported('discriminant of %r' % (v,))
            if isinstance(v.discr, int):
                return S(z3.IntVal(v.discr), 'isize')
            return S(v.discr, 'isize')
        if k == 'tuple':
            return Agg(None, [self.eval_operand(frame, o) for o in rv.args])
        if k == 'array':
            from models_coll import Seq
            return Seq.concrete([self.eval_operand(frame, o) for o in rv.args], kind='array')
        if k == 'repeat':
            from models_coll import Seq
            n = int(re.sub(r'_usize$', '', rv.extra.replace('const ', '').strip()))
            v = self.eval_operand(frame, rv.args[0])
            return Seq.concrete([v] * n, kind='array')
        if k == 'adt':
            head, names = rv.extra
            vals = [self.eval_operand(frame, o) for o in rv.args]
            if head.startswith('{closure@') and rv.args:
                vals = self._fix_closure_captures(frame, head, rv, vals)
            return self.make_adt(head, names, vals, frame.fn)
        if k == 'len':
            v = self.read_place(frame, rv.args[0])
            return v.length()
        raise Unsupported('rvalue ' + k)

    def _fix_closure_captures(self, frame, head, rv, vals):
        """rustc's MIR printer zips capture *variable names* with the operands, so a closure that
        captures two disjoint fields of one variable (`self.a`, `self.b`) is printed with an operand
        missing.  The captures are moved from consecutive temporaries; recover the missing ones."""
        fnc = self.index.closures.get(norm_closure_ty(head))
        kids = [f for n, f in self.dump.functions.items()
                if n.startswith(frame.fn.name + '::{closure#') and n[len(frame.fn.name) + 2:].count('::') == 0
                and FnIndex._closure_key(f.header, n) == norm_closure_ty(head)]
        if len(kids) == 1:
            fnc = kids[0]
        if fnc is None:
            return vals
        idx = [int(x) for x in re.findall(r'\(\*?_1\)?\.(\d+): ', '\n'.join(fnc.lines))]
        idx += [int(x) for x in re.findall(r'\(_1\.(\d+): ', '\n'.join(fnc.lines))]
        need = (max(idx) + 1) if idx else len(vals)
        if need <= len(vals):
            return vals
        locs = [o.place.local for o in rv.args if o.kind == 'move' and o.place is not None and not o.place.proj]
        if len(locs) != len(rv.args) or locs != list(range(locs[0], locs[0] + len(locs))):
            raise Unsupported('closure %s captures %d values but %d are printed' % (head, need, len(vals)))
        out = list(vals)
        nxt = locs[-1] + 1
        while len(out) < need:
            c = frame.cells.get(nxt)
            if c is None or c.v is None:
                raise Unsupported('closure %s: missing capture operand _%d' % (head, nxt))
            out.append(c.v)
            nxt += 1
        return out

    def make_adt(self, head, names, vals, creator=None):
        if head.startswith(('{closure@', '{coroutine@', '{async ')):
            key = norm_closure_ty(head)
            if head.startswith('{closure@'):
                # macro-generated closures (tokio::select!) share one source location: resolve the body among the
                # children of the creating function
                if creator is not None:
                    kids = [f for n, f in self.dump.functions.items()
                            if n.startswith(creator.name + '::{closure#') and n[len(creator.name) + 2:].count('::') == 0
                            and FnIndex._closure_key(f.header, n) == key]
                    if len(kids) > 1 and names:
                        want = set(names)
                        kids = [f for f in kids if set(f.parse().upvar_names.values()) == want] or kids
                    if len(kids) == 1:
                        return Closure('fn:' + kids[0].name, vals)
                return Closure(key, vals)
            # coroutine: state 0 (unresumed) with upvars; body = child closure of the creating function
            body = self.index.coroutine_body(creator, head, names)
            if body is None:
                raise Unsupported('coroutine body not found for %s created in %s' % (head, creator.name if creator else '?'))
            return Enum('coroutine:' + body.name, 0, {}, vals)
        flat = strip_generics(head)
        segs = flat.split('::')
        last = segs[-1]
        # std enums
        if last in ('Some', 'None') and (len(segs) < 2 or segs[-2] == 'Option'):
            return Enum('Option', 1 if last == 'Some' else 0, {1: tuple(vals)} if last == 'Some' else {})
        if last in ('Ok', 'Err') and (len(segs) < 2 or segs[-2] == 'Result'):
            i = 0 if last == 'Ok' else 1
            return Enum('Result', i, {i: tuple(vals)})
        if last in ('Ready', 'Pending') and (len(segs) < 2 or segs[-2] == 'Poll'):
            i = 0 if last == 'Ready' else 1
            return Enum('Poll', i, {i: tuple(vals)})
        if last in ('Continue', 'Break') and len(segs) >= 2 and segs[-2] == 'ControlFlow':
            i = 0 if last == 'Continue' else 1
            return Enum('ControlFlow', i, {i: tuple(vals)})
        so = _select_out(head)
        if so is not None:
            idx, nbr = so
            return Enum('SelectOut%d' % nbr, idx, {idx: tuple(vals)})
        # crate enums: `Enum::Variant`
        if len(segs) >= 2:
            ev = self.src.enum_variants(segs[-2], '::'.join(segs[:-2]))
            if ev:
                for i, (vn, vf) in enumerate(ev):
                    if vn == last:
                        if names:
                            order = {n: j for j, n in enumerate(vf)}
                            out = [None] * len(vf)
                            for n, v in zip(names, vals):
                                out[order[n]] = v
                            vals = out
                        return Enum(segs[-2], i, {i: tuple(vals)})
        hook = self.ctx.adt_models.get(last)
        if hook is not None:
            return hook(self, head, names, vals)
        # struct
        if names:
            fields = self.src.struct_fields(last, '::'.join(segs[:-1]))
            if fields and set(fields) == set(names):
                order = {n: j for j, n in enumerate(fields)}
                out = [None] * len(fields)
                for n, v in zip(names, vals):
                    out[order[n]] = v
                vals = out
        return Agg(last, vals)

    # ------------------------------------------------------------ scalar ops
    def binop(self, op, a, b):
        if not isinstance(a, S) or not isinstance(b, S):
            if op in ('Eq', 'Ne'):
                e = eq_val(a, b)
                return S(e if op == 'Eq' else z3.Not(e), 'bool')
            raise Unsupported('binop %s on %r, %r' % (op, a, b))
        ty = a.ty
        x, y = a.t, b.t
        if ty == 'bool':
            if op == 'Eq':
                return S(x == y, 'bool')
            if op == 'Ne':
                return S(x != y, 'bool')
            if op == 'BitAnd':
                return S(z3.And(x, y), 'bool')
            if op == 'BitOr':
                return S(z3.Or(x, y), 'bool')
            if op == 'BitXor':
                return S(z3.Xor(x, y), 'bool')
            raise Unsupported('bool binop ' + op)
        cmp = {'Eq': lambda: x == y, 'Ne': lambda: x != y, 'Lt': lambda: x < y,
               'Le': lambda: x <= y, 'Gt': lambda: x > y, 'Ge': lambda: x >= y}
        if op in cmp:
            return S(cmp[op](), 'bool')
        if op == 'Cmp':
            return Enum('Ordering', z3.If(x < y, -1, z3.If(x == y, 0, 1)))
        lo, hi = int_range(ty) if ty in INT_TYPES else (None, None)
        if op in ('AddWithOverflow', 'SubWithOverflow', 'MulWithOverflow'):
            raw = x + y if op[0] == 'A' else (x - y if op[0] == 'S' else x * y)
            ovf = z3.Or(raw > hi, raw < lo)
            return Agg(None, [S(wrap_int(raw, ty), ty) if not self.ctx.lazy_wrap else S(z3.If(ovf, wrap_int(raw, ty), raw), ty),
                              S(ovf, 'bool')])
        if op in ('Add', 'Sub', 'Mul'):
            raw = x + y if op == 'Add' else (x - y if op == 'Sub' else x * y)
            return S(wrap_int(raw, ty), ty)
        if op in ('AddUnchecked', 'SubUnchecked', 'MulUnchecked'):
            raw = x + y if op[0] == 'A' else (x - y if op[0] == 'S' else x * y)
            if self.path.feasible(z3.Or(raw > hi, raw < lo)):
                raise PanicPath('ub', 'unchecked arithmetic overflows')
            return S(raw, ty)
        if op == 'Div' or op == 'Rem':
            # rust: truncating division; z3 Int div is floor for positive divisor.
            if lo == 0:
                return S(x / y if op == 'Div' else x % y, ty)
            q = z3.If(z3.And(x >= 0, y > 0), x / y,
                      z3.If(z3.And(x < 0, y > 0), -((-x) / y),
                            z3.If(z3.And(x >= 0, y < 0), -(x / (-y)), (-x) / (-y))))
            if op == 'Div':
                return S(wrap_int(q, ty), ty)
            return S(x - q * y, ty)
        if op in ('Shl', 'Shr', 'ShlUnchecked', 'ShrUnchecked'):
            w = INT_TYPES[ty][0]
            sh = concrete_int(y)
            if sh is None:
                raise Unsupported('shift by a symbolic amount')
            sh %= w
            if op.startswith('Shl'):
                return S(wrap_int(x * (1 << sh), ty), ty)
            return S(x / (1 << sh), ty)   # floor = arithmetic shift for signed too
        if op in ('BitAnd', 'BitOr', 'BitXor'):
            return self.bitop(op, a, b)
        raise Unsupported('binop ' + op)

    def bitop(self, op, a, b):
        """bit operations in integer mode: through bit-vectors (int2bv/bv2int)"""
        w, signed = INT_TYPES[a.ty]
        ca, cb = concrete_int(a.t), concrete_int(b.t)
        if ca is not None and cb is not None:
            m = (1 << w) - 1
            ua, ub = ca & m, cb & m
            r = {'BitAnd': ua & ub, 'BitOr': ua | ub, 'BitXor': ua ^ ub}[op]
            if signed and r >= 1 << (w - 1):
                r -= 1 << w
            return S(z3.IntVal(r), a.ty)
        if op == 'BitOr':
            for k in (32, 16, 8, 48, 24):
                m = 1 << k
                for x, y in ((a.t, b.t), (b.t, a.t)):
                    if not self.path.feasible(z3.Not(z3.And(x % m == 0, y >= 0, y < m))):
                        return S(x + y, a.ty)      # disjoint bit ranges: or == add
        if op == 'BitAnd' and cb is not None and cb >= 0 and (cb & (cb + 1)) == 0:
            return S(a.t % (cb + 1), a.ty)
        if op == 'BitAnd' and ca is not None and ca >= 0 and (ca & (ca + 1)) == 0:
            return S(b.t % (ca + 1), a.ty)
        xa, xb = z3.Int2BV(a.t, w), z3.Int2BV(b.t, w)
        r = {'BitAnd': xa & xb, 'BitOr': xa | xb, 'BitXor': xa ^ xb}[op]
        return S(z3.BV2Int(r, signed), a.ty)

    def cast(self, a, ty, kind):
        ty = ty.strip()
        if kind == 'IntToInt':
            src = a.ty
            if src == 'bool':
                return S(z3.If(a.t, 1, 0), ty)
            slo, shi = int_range(src)
            lo, hi = int_range(ty)
            if slo >= lo and shi <= hi:
                return S(a.t, ty)
            return S(wrap_int(a.t, ty), ty)
        if kind.startswith('PointerCoercion') or kind in ('Transmute', 'PtrToPtr', 'Subtype'):
            if hasattr(a, 'coerce'):
                return a.coerce(self, ty, kind)
            return a
        raise Unsupported('cast %s to %s' % (kind, ty))

    # ------------------------------------------------------------ execution
    def call_fn(self, fn, args):
        """generator: execute a MIR function with argument values; returns value"""
        fn.parse()
        self.encoded[fn.name] = (len(fn.blocks), fn.text_hash)
        if self.depth > 60:
            raise Unsupported('call depth exceeded in ' + fn.name)
        self.depth += 1
        frame = Frame(fn)
        if len(args) != len(fn.params):
            raise Unsupported('arity mismatch calling %s: %d args' % (fn.name, len(args)))
        for (loc, ty), v in zip(fn.params, args):
            frame.cell(loc).v = v
        bb = 0
        visits = {}
        path = self.path
        while True:
            visits[bb] = visits.get(bb, 0) + 1
            if visits[bb] > self.unroll + 1:
                raise OutOfBound('unrolling bound %d exceeded in %s bb%d' % (self.unroll, fn.name, bb))
            stmts, term = fn.blocks[bb]
            for st in stmts:
                path.steps += 1
                if st.kind == 'assign':
                    v = self.eval_rvalue(frame, st.rv, fn.locals.get(st.place.local))
                    write_loc(self.place_loc(frame, st.place), v)
                elif st.kind == 'setdiscr':
                    loc = self.place_loc(frame, st.place)
                    v = read_loc(loc)
                    write_loc(loc, Enum(v.name, st.extra, v.payload, v.upvars))
                elif st.kind == 'assume':
                    pass
            if path.steps > MAX_STEPS:
                raise Unsupported('step budget exceeded')
            if self.trace:
                print('  ' * self.depth + '%s bb%d: %s' % (fn.name.split('::')[-1], bb, term.text[:140]))
            k = term.kind
            if k == 'goto':
                bb = term.targets['return']
            elif k == 'return':
                self.depth -= 1
                rv = frame.cell(0).v
                return rv if rv is not None else UNIT
            elif k == 'switch':
                v = self.eval_operand(frame, term.args[0])
                bb = self.do_switch(v, term.targets)
            elif k == 'drop':
                try:
                    dv = self.read_place(frame, term.args[0])
                except Exception:
                    dv = None
                if dv is not None and hasattr(dv, 'on_drop'):
                    dv.on_drop(self)
                elif dv is not None and getattr(path, 'live_oneshots', False):
                    _drop_responders(path, dv)
                if isinstance(dv, Agg) and dv.name:
                    # a type of the crate with its own `impl Drop`: run it (the fields' own drops follow in the MIR's drop glue,
                    # which the contract models do not need)
                    dfn = [f for f in self.index.methods.get((dv.name, 'Drop', 'drop'), [])]
                    if dfn:
                        place_loc = self.place_loc(frame, term.args[0]) if hasattr(self, 'place_loc') else None
                        if place_loc is not None:
                            yield from self.call_fn(dfn[0], [Ref(place_loc, True)])
                bb = term.targets['return']
            elif k == 'assert':
                op, neg, msg = term.args
                c = self.eval_operand(frame, op)
                ok = z3.Not(c.t) if neg else c.t
                if not path.branch(ok, 'assert'):
                    raise PanicPath('panic', '%s in %s' % (msg, fn.name))
                bb = term.targets['success']
            elif k == 'call':
                args_v = [self.eval_operand(frame, o) for o in term.args]
                dest_ty = fn.locals.get(term.dest.local) if term.dest is not None else None
                rv = yield from self.call(term.callee, args_v, dest_ty)
                if 'return' not in term.targets:
                    raise PanicPath('panic', 'diverging call %s returned' % term.callee)
                if term.dest is not None:
                    write_loc(self.place_loc(frame, term.dest), rv)
                bb = term.targets['return']
            elif k == 'unreachable':
                raise PanicPath('ub', 'unreachable executed in %s bb%d' % (fn.name, bb))
            else:
                raise Unsupported('terminator ' + k)

    def do_switch(self, v, targets):
        if isinstance(v, Enum):
            raise Unsupported('switch on enum value')
        t = v.t
        other = None
        if v.ty == 'bool':
            for val, bb in targets:
                if val is None:
                    other = bb
            for val, bb in targets:
                if val is None:
                    continue
                c = t if val != 0 else z3.Not(t)
                if self.path.branch(c, 'switch'):
                    return bb
            return other
        for val, bb in targets:
            if val is None:
                other = bb
                continue
            vv = val
            if v.ty in INT_TYPES and INT_TYPES[v.ty][1] and val >= (1 << (INT_TYPES[v.ty][0] - 1)):
                vv = val - (1 << INT_TYPES[v.ty][0])
            if self.path.branch(t == vv, 'switch'):
                return bb
        if other is None:
            raise Infeasible()
        return other

    # ------------------------------------------------------------ calls
    def call(self, callee_text, args, dest_ty=None):
        r = yield from self._call(callee_text, args, dest_ty)
        for rx, hook in getattr(self, 'ret_hooks', {}).items():
            if re.search(rx, callee_text):
                hook(self, callee_text, args, r)
        return r

    def _call(self, callee_text, args, dest_ty=None):
        pc = self.ctx.callee_cache.get(callee_text)
        if pc is None:
            pc = parse_callee(callee_text)
            self.ctx.callee_cache[callee_text] = pc
        for rx, hook in self.hooks.items():
            if re.search(rx, callee_text):
                r = hook(self, callee_text, args)
                if r is not None:
                    return r[0]
        # 1. contract models
        h = self.ctx.models.lookup(pc, args)
        if h is not None:
            r = h(self, pc, args, dest_ty)
            if hasattr(r, '__next__'):
                r = yield from r
            if r is not NotImplemented:
                return r
        # 2. MIR of the crate
        fn = self.index.resolve(pc, args)
        if fn is None and pc.get('trait') and pc['trait'].split('::')[-1] == 'Into' and pc['method'] == 'into':
            # blanket Into: `<X as Into<Y>>::into` is `<Y as From<X>>::from`
            raw = pc.get('trait_raw', '')
            i = raw.find('<')
            if i >= 0:
                tgt = last_type_name(raw[i + 1:match_close(raw, i)])
                src_ty = last_type_name(pc['qself'])
                c = [f for f in self.index.methods.get((tgt, 'From', 'from'), [])
                     if last_type_name(f.parse().params[0][1]) == src_ty]
                if c:
                    fn = c[0]
        if fn is not None:
            r = yield from self.call_fn(fn, args)
            return r
        raise Unsupported('no model and no MIR for callee %s' % callee_text)

    def call_closure(self, clo, args):
        """call a closure / fn item value with a python list of argument values"""
        clo_ref = None
        if isinstance(clo, Ref):
            clo_ref = clo
            clo = read_loc(clo.loc)
        if isinstance(clo, FnItem):
            r = yield from self.call(clo.path, args)
            return r
        if not isinstance(clo, Closure):
            raise Unsupported('call of non-closure %r' % (clo,))
        if clo.loc_text.startswith('fn:'):
            fn = self.dump.functions.get(clo.loc_text[3:])
        else:
            fn = self.index.closures.get(clo.loc_text)
        if fn is None:
            raise Unsupported('closure body not found: ' + clo.loc_text)
        fn.parse()
        pty = fn.params[0][1].strip()
        self_arg = clo
        if pty.startswith('&'):
            self_arg = clo_ref if clo_ref is not None else Ref(Loc(Cell(clo, 'closure-env')), pty.startswith('&mut'))
        r = yield from self.call_fn(fn, [self_arg] + list(args))
        return r


def _select_out(head):
    """tokio::select!'s `__tokio_select_util::Out::<A, B, ..>::_k` / `::Disabled` -> (variant index, branches)"""
    m = re.search(r'__tokio_select_util::Out::<', head)
    if not m:
        return None
    i = m.end() - 1
    j = match_close(head, i)
    nbr = len(split_top(head[i + 1:j]))
    tail = head[j + 1:].lstrip(':')
    if tail == 'Disabled':
        return nbr, nbr
    mm = re.match(r'_(\d+)$', tail)
    if mm:
        return int(mm.group(1)), nbr
    return None


def _safe_lit(t):
    return re.fullmatch(r'"(?:[^"\\]|\\.)*"', t) is not None and '\\u{' not in t


def run_to_end(gen):
    """drive a generator that is not expected to hit scheduling points"""
    try:
        while True:
            next(gen)
    except StopIteration as e:
        return e.value
