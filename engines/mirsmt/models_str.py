"""String models.

Str    : byte-level string = slice [lo, hi) of a python list of byte terms (z3 Int 0..255).
         Owned strings (String, Box<str>) and &str share the representation.
StrTok : opaque string identified by an integer token (equal tokens <=> equal strings),
         with uninterpreted attributes (length, result of `parse::<u64>`, prefix tests).
"""
import z3
from values import *
from interp import bool_s, mk_int, concrete_int
from models_core import some, NONE, opt_sym, ok, err, deref_all


class Str(Model):
    def __init__(self, bytes_, lo, hi):
        self.b = bytes_            # shared python list of z3 Int terms / ints
        self.lo = z3.IntVal(lo) if isinstance(lo, int) else lo
        self.hi = z3.IntVal(hi) if isinstance(hi, int) else hi

    def __repr__(self):
        c = self.concrete()
        if c is not None:
            return 'Str(%r)' % (c,)
        return 'Str(<%d bytes> %s..%s)' % (len(self.b), self.lo, self.hi)

    def concrete(self):
        lo, hi = concrete_int(self.lo), concrete_int(self.hi)
        if lo is None or hi is None:
            return None
        out = []
        for x in self.b[lo:hi]:
            v = x if isinstance(x, int) else concrete_int(x)
            if v is None:
                return None
            out.append(v)
        return bytes(out)

    def cap(self):
        return len(self.b)

    # Box<str> internals (`(b.0: Unique<str>).0: NonNull<str>` as *const str, then `*ptr`)
    def get_field(self, i):
        return self

    def deref_loc(self, ip):
        return Loc(Cell(self, 'box-str'))

    def bt(self, p):
        x = self.b[p]
        return z3.IntVal(x) if isinstance(x, int) else x

    def length(self):
        return S(z3.simplify(self.hi - self.lo), 'usize')

    def len_t(self):
        return z3.simplify(self.hi - self.lo)

    def inr(self, p):
        return z3.And(self.lo <= p, self.hi > p)

    def byte_at(self, idx):
        """byte at absolute symbolic position idx"""
        ci = concrete_int(idx)
        if ci is not None:
            return self.bt(ci) if 0 <= ci < len(self.b) else z3.IntVal(0)
        out = z3.IntVal(0)
        for p in range(len(self.b) - 1, -1, -1):
            out = z3.If(idx == p, self.bt(p), out)
        return out

    def is_boundary(self, idx_abs):
        """char boundary at absolute position (lo <= idx <= hi assumed)"""
        b = self.byte_at(idx_abs)
        return z3.Or(idx_abs == self.lo, idx_abs == self.hi, z3.Or(b < 0x80, b >= 0xC0))

    def normalised(self):
        """same string re-based at 0 in a fresh byte list"""
        lo = concrete_int(self.lo)
        if lo == 0:
            return self
        n = len(self.b)
        if lo is not None:
            return Str([self.b[p] for p in range(lo, n)], 0, z3.simplify(self.hi - self.lo))
        nb = [z3.simplify(self.byte_at(self.lo + j)) for j in range(n)]
        return Str(nb, 0, z3.simplify(self.hi - self.lo))

    def eq(self, other):
        if isinstance(other, StrTok):
            raise Unsupported('Str == StrTok')
        a, o = self.normalised(), other.normalised()
        la, lb = a.len_t(), o.len_t()
        conj = [la == lb]
        m = min(len(a.b), len(o.b))
        for j in range(m):
            conj.append(z3.Implies(la > j, a.bt(j) == o.bt(j)))
        conj.append(la <= m)
        return z3.And(conj)

    def starts_with(self, pat):
        pc = pat.concrete()
        if pc is None:
            raise Unsupported('starts_with a symbolic pattern')
        conj = [self.len_t() >= len(pc)]
        for j, ch in enumerate(pc):
            conj.append(self.byte_at(z3.simplify(self.lo + j)) == ch)
        return z3.And(conj)

    def find_byte(self, c):
        """(found, index relative to lo) of the first byte == c"""
        found = z3.BoolVal(False)
        idx = z3.IntVal(0)
        for p in range(len(self.b) - 1, -1, -1):
            hit = z3.And(self.inr(p), self.bt(p) == c)
            idx = z3.If(hit, p - self.lo, idx)
            found = z3.Or(hit, found)
        return z3.simplify(found), z3.simplify(idx)

    def trim_matches_byte(self, pred):
        """pred(byte term) -> z3 Bool 'is trimmed'.  returns Str"""
        n = len(self.b)
        new_lo = self.hi
        for p in range(n - 1, -1, -1):
            new_lo = z3.If(z3.And(self.inr(p), z3.Not(pred(self.bt(p)))), p, new_lo)
        new_hi = new_lo
        for p in range(n):
            new_hi = z3.If(z3.And(self.inr(p), z3.Not(pred(self.bt(p)))), p + 1, new_hi)
        return Str(self.b, z3.simplify(new_lo), z3.simplify(new_hi))

    def lex_cmp(self, other):
        raise Unsupported('ordering of strings')

    def ite(self, c, other):
        if other.b is self.b:
            return Str(self.b, z3.If(c, self.lo, other.lo), z3.If(c, self.hi, other.hi))
        a, o = self.normalised(), other.normalised()
        m = max(len(a.b), len(o.b))
        ab = a.b + [0] * (m - len(a.b))
        ob = o.b + [0] * (m - len(o.b))
        nb = [z3.If(c, (z3.IntVal(x) if isinstance(x, int) else x), (z3.IntVal(y) if isinstance(y, int) else y))
              for x, y in zip(ab, ob)]
        return Str(nb, 0, z3.If(c, a.hi, o.hi))

    def coerce(self, ip, ty, kind):
        return self

    def convert(self, ip, dt):
        return self.normalised()


def const_str(ip, data):
    return Ref(Loc(Cell(Str(list(data), 0, len(data)), 'str-const')))


def sym_str(path, name, cap, ascii_only=False, min_len=0):
    """fresh symbolic string of at most `cap` bytes, well-formed UTF-8 restricted
    to 1- and 2-byte sequences (code points <= U+07FF)."""
    bs = [path.fresh('%s_b%d' % (name, i)) for i in range(cap)]
    n = path.fresh(name + '_len')
    path.assume(z3.And(n >= min_len, n <= cap))
    for i, b in enumerate(bs):
        if ascii_only:
            path.assume(z3.And(b >= 0, b <= 0x7f))
            continue
        path.assume(z3.And(b >= 0, b <= 0xDF, z3.Or(b <= 0x7f, b >= 0x80)))
        lead = z3.And(b >= 0xC2, b <= 0xDF)
        cont = z3.And(b >= 0x80, b <= 0xBF)
        prev_lead = z3.And(bs[i - 1] >= 0xC2, bs[i - 1] <= 0xDF) if i > 0 else z3.BoolVal(False)
        # inside the string: continuation iff previous is a lead; bytes 0xC0/0xC1 excluded
        path.assume(z3.Implies(n > i, z3.And(cont == prev_lead, z3.Or(b <= 0x7f, cont, lead))))
        path.assume(z3.Implies(z3.And(n > i, lead), n > i + 1))
    return Str(bs, 0, n)


_tok_len = z3.Function('str_len', z3.IntSort(), z3.IntSort())
_tok_parse_ok = z3.Function('str_parse_u64_ok', z3.IntSort(), z3.BoolSort())
_tok_parse_val = z3.Function('str_parse_u64_val', z3.IntSort(), z3.IntSort())


class StrTok(Model):
    def __init__(self, tok):
        self.tok = tok

    def __repr__(self):
        return 'StrTok(%s)' % self.tok

    def eq(self, other):
        if isinstance(other, StrTok):
            return self.tok == other.tok
        raise Unsupported('StrTok == Str')

    def length(self):
        return S(_tok_len(self.tok), 'usize')

    def ite(self, c, other):
        return StrTok(z3.If(c, self.tok, other.tok))

    def normalised(self):
        return self

    # Box<str> internals (`(b.0: Unique<str>).0: NonNull<str>` as *const str, then `*ptr`)
    def get_field(self, i):
        return self

    def deref_loc(self, ip):
        return Loc(Cell(self, 'box-str'))

    def convert(self, ip, dt):
        return self

    def coerce(self, ip, ty, kind):
        return self

    def lex_cmp(self, other):
        return self.tok < other.tok, self.tok == other.tok


def as_str(v):
    v = deref_all(v)
    if isinstance(v, (Str, StrTok)):
        return v
    raise Unsupported('expected a string, got %r' % (v,))


def install(ctx):
    M = ctx.models
    install_fmt(ctx)

    @M.reg('str::len', 'String::len')
    def str_len(ip, pc, args, dt):
        s = as_str(args[0])
        if isinstance(s, StrTok):
            ip.path.assume(_tok_len(s.tok) >= 0)
        return s.length()

    @M.reg('str::is_empty', 'String::is_empty')
    def str_is_empty(ip, pc, args, dt):
        s = as_str(args[0])
        if isinstance(s, StrTok):
            ip.path.assume(_tok_len(s.tok) >= 0)
        return bool_s(s.length().t == 0)

    @M.reg('str::starts_with')
    def starts_with(ip, pc, args, dt):
        s, pat = as_str(args[0]), args[1]
        if isinstance(s, StrTok):
            p = as_str(pat).concrete()
            f = z3.Function('str_starts_with_%s' % p.decode('latin1'), z3.IntSort(), z3.BoolSort())
            return bool_s(f(s.tok))
        if isinstance(pat, S) and pat.ty == 'char':
            return bool_s(z3.And(s.len_t() > 0, s.byte_at(s.lo) == pat.t))
        return bool_s(s.starts_with(as_str(pat)))

    @M.reg('str::get')
    def str_get(ip, pc, args, dt):
        s, rng = as_str(args[0]), args[1]
        # rng is RangeFrom { start } or RangeTo { end } or Range { start, end }
        name = rng.name
        ln = s.len_t()
        if name == 'RangeFrom':
            a = rng.fields[0].t
            okc = z3.And(a <= ln, s.is_boundary(z3.simplify(s.lo + a)))
            return opt_sym(okc, Ref(Loc(Cell(Str(s.b, z3.simplify(s.lo + a), s.hi), 'str.get'))))
        if name == 'RangeTo':
            b = rng.fields[0].t
            okc = z3.And(b <= ln, s.is_boundary(z3.simplify(s.lo + b)))
            return opt_sym(okc, Ref(Loc(Cell(Str(s.b, s.lo, z3.simplify(s.lo + b)), 'str.get'))))
        if name == 'Range':
            a, b = rng.fields[0].t, rng.fields[1].t
            okc = z3.And(a <= b, b <= ln, s.is_boundary(z3.simplify(s.lo + a)), s.is_boundary(z3.simplify(s.lo + b)))
            return opt_sym(okc, Ref(Loc(Cell(Str(s.b, z3.simplify(s.lo + a), z3.simplify(s.lo + b)), 'str.get'))))
        raise Unsupported('str::get with %r' % (rng,))

    @M.reg('<str as Index>::index', '<String as Index>::index')
    def str_index(ip, pc, args, dt):
        # &s[a..] / &s[..b] / &s[a..b]: as str::get, but out of range or off a char boundary panics
        o = str_get(ip, pc, args, dt)
        d = o.discr if not isinstance(o.discr, int) else z3.IntVal(o.discr)
        if not ip.path.branch(d == 1, 'str index in range'):
            raise PanicPath('panic', 'byte index out of range or not a char boundary')
        return o.payload[1][0]

    @M.reg('str::split_once', 'str::rsplit_once')
    def str_split_once(ip, pc, args, dt):
        s_, pat = as_str(args[0]), args[1]
        if pc['method'] == 'rsplit_once':
            raise Unsupported('rsplit_once')
        if isinstance(pat, S) and pat.ty == 'char':
            c = concrete_int(pat.t)
            if c is None or c >= 0x80:
                raise Unsupported('split_once on a non-ASCII / symbolic char')
            found, rel = s_.find_byte(c)
            plen = 1
        else:
            pv = deref_all(pat)
            if not (isinstance(pv, Str) and pv.concrete()):
                raise Unsupported('split_once pattern %r' % (pat,))
            pat_b = pv.concrete()
            plen = len(pat_b)
            found, rel = z3.BoolVal(False), z3.IntVal(0)
            for q in range(len(s_.b) - plen, -1, -1):
                hit = z3.And([s_.lo <= q, s_.hi >= q + plen] + [s_.bt(q + j) == pat_b[j] for j in range(plen)])
                rel = z3.If(hit, q - s_.lo, rel)
                found = z3.Or(hit, found)
        mid = z3.simplify(s_.lo + rel)
        pair = Agg(None, [Ref(Loc(Cell(Str(s_.b, s_.lo, mid), 'split_once.0'))), Ref(Loc(Cell(Str(s_.b, z3.simplify(mid + plen), s_.hi), 'split_once.1')))])
        return opt_sym(z3.simplify(found), pair)

    @M.reg('str::char_indices', 'str::chars')
    def str_char_indices(ip, pc, args, dt):
        s_ = as_str(args[0])
        return CharIndicesM(s_, s_.lo, pc['method'] == 'char_indices')

    @M.reg('str::split_at')
    def str_split_at(ip, pc, args, dt):
        s_ = as_str(args[0])
        k = args[1].t
        mid = z3.simplify(s_.lo + k)
        if not ip.path.branch(z3.And(k >= 0, mid <= s_.hi, s_.is_boundary(mid)), 'split_at on a char boundary'):
            raise PanicPath('panic', 'split_at: index is not a char boundary / out of range')
        return Agg(None, [Ref(Loc(Cell(Str(s_.b, s_.lo, mid), 'split_at.0'))), Ref(Loc(Cell(Str(s_.b, mid, s_.hi), 'split_at.1')))])

    @M.reg('str::bytes')
    def str_bytes(ip, pc, args, dt):
        from models_coll import Seq, Window
        s_ = as_str(args[0]).normalised()
        seq = Seq([S(s_.bt(j), 'u8') for j in range(len(s_.b))], s_.len_t(), 'vec')
        return Window(seq, 0, seq.n)

    @M.reg('str::split', 'str::splitn')
    def str_split(ip, pc, args, dt):
        if pc['method'] == 'splitn':
            limit, s_, pat = args[1], as_str(args[0]), args[2]
            lim = concrete_int(limit.t)
            if lim is None:
                raise Unsupported('splitn with a symbolic limit')
        else:
            s_, pat, lim = as_str(args[0]), args[1], None
        if not (isinstance(pat, S) and pat.ty == 'char'):
            raise Unsupported('split on %r' % (pat,))
        c = concrete_int(pat.t)
        if c is None or c >= 0x80:
            raise Unsupported('split on a non-ASCII / symbolic char')
        return SplitM(s_, c, s_.lo, z3.BoolVal(False), lim)

    @M.reg('str::find')
    def str_find(ip, pc, args, dt):
        s, pat = as_str(args[0]), args[1]
        if isinstance(pat, S) and pat.ty == 'char':
            c = concrete_int(pat.t)
            if c is None or c >= 0x80:
                raise Unsupported('find of a non-ASCII / symbolic char')
            found, idx = s.find_byte(c)
            return opt_sym(found, S(idx, 'usize'))
        pv = deref_all(pat)
        if isinstance(pv, Str) and pv.concrete() is not None:
            pat_b = pv.concrete()
            found = z3.BoolVal(False)
            idx = z3.IntVal(0)
            for q in range(len(s.b) - len(pat_b), -1, -1):
                hit = z3.And([s.lo <= q, s.hi >= q + len(pat_b)] + [s.bt(q + j) == pat_b[j] for j in range(len(pat_b))])
                idx = z3.If(hit, q - s.lo, idx)
                found = z3.Or(hit, found)
            if len(pat_b) == 0:
                return some(mk_int(0, 'usize'))
            return opt_sym(z3.simplify(found), S(z3.simplify(idx), 'usize'))
        raise Unsupported('str::find pattern %r' % (pat,))

    @M.reg('str::trim_matches')
    def trim_matches(ip, pc, args, dt):
        s, pat = as_str(args[0]), args[1]
        if isinstance(pat, S) and pat.ty == 'char':
            c = concrete_int(pat.t)
            if c is None or c >= 0x80:
                raise Unsupported('trim_matches of a non-ASCII / symbolic char')
            return Ref(Loc(Cell(s.trim_matches_byte(lambda b: b == c), 'trim')))
        raise Unsupported('trim_matches pattern %r' % (pat,))

    @M.reg('str::trim_start_matches', 'str::trim_end_matches')
    def trim_one_side(ip, pc, args, dt):
        s, pat = as_str(args[0]), args[1]
        if not (isinstance(pat, S) and pat.ty == 'char'):
            raise Unsupported('%s pattern %r' % (pc['method'], pat))
        c = concrete_int(pat.t)
        if c is None or c >= 0x80:
            raise Unsupported('trim of a non-ASCII / symbolic char')
        both = s.trim_matches_byte(lambda b: b == c)
        # all-trimmed strings: both sides collapse to the same empty slice
        if pc['method'] == 'trim_start_matches':
            r = Str(s.b, both.lo, z3.If(both.hi > both.lo, s.hi, both.lo))
        else:
            r = Str(s.b, z3.If(both.hi > both.lo, s.lo, both.lo), both.hi)
        return Ref(Loc(Cell(r, 'trim1')))

    @M.reg('str::strip_suffix', 'str::strip_prefix')
    def strip_affix(ip, pc, args, dt):
        s, pat = as_str(args[0]), args[1]
        if isinstance(pat, S) and pat.ty == 'char':
            c = concrete_int(pat.t)
            if c is None or c >= 0x80:
                raise Unsupported('strip of a non-ASCII / symbolic char')
            pb = bytes([c])
        else:
            pv = deref_all(pat)
            pb = pv.concrete() if isinstance(pv, Str) else None
            if pb is None:
                raise Unsupported('strip with a symbolic pattern')
        n = len(pb)
        if pc['method'] == 'strip_prefix':
            okc = s.starts_with(Str(list(pb), 0, n))
            return opt_sym(okc, Ref(Loc(Cell(Str(s.b, z3.simplify(s.lo + n), s.hi), 'strip'))))
        okc = z3.And([s.len_t() >= n] + [s.byte_at(z3.simplify(s.hi - n + j)) == pb[j] for j in range(n)])
        return opt_sym(okc, Ref(Loc(Cell(Str(s.b, s.lo, z3.simplify(s.hi - n)), 'strip'))))

    @M.reg('str::ends_with')
    def ends_with(ip, pc, args, dt):
        s, pat = as_str(args[0]), args[1]
        if isinstance(pat, S) and pat.ty == 'char':
            return bool_s(z3.And(s.len_t() > 0, s.byte_at(z3.simplify(s.hi - 1)) == pat.t))
        pb = as_str(pat).concrete()
        if pb is None:
            raise Unsupported('ends_with a symbolic pattern')
        n = len(pb)
        return bool_s(z3.And([s.len_t() >= n] + [s.byte_at(z3.simplify(s.hi - n + j)) == pb[j] for j in range(n)]))

    @M.reg('str::contains')
    def contains(ip, pc, args, dt):
        s, pat = as_str(args[0]), args[1]
        if isinstance(pat, S) and pat.ty == 'char':
            c = concrete_int(pat.t)
            found, _ = s.find_byte(c)
            return bool_s(found)
        raise Unsupported('contains pattern')

    @M.reg('str::trim')
    def trim(ip, pc, args, dt):
        s = as_str(args[0])
        if isinstance(s, StrTok):
            f = z3.Function('str_trim', z3.IntSort(), z3.IntSort())
            return Ref(Loc(Cell(StrTok(f(s.tok)), 'trim')))
        ws = lambda b: z3.Or(b == 32, z3.And(b >= 9, b <= 13))
        return Ref(Loc(Cell(s.trim_matches_byte(ws), 'trim')))

    @M.reg('<str as ToOwned>::to_owned', 'String::from', 'str::to_string',
           'str::to_owned', '<String as From>::from', '<Box as From>::from', 'String::into_boxed_str',
           'str::into', 'String::as_str', 'String::clone')
    def to_string(ip, pc, args, dt):
        v = deref_all(args[0])
        if isinstance(v, (Str, StrTok)):
            return v.normalised()
        return NotImplemented

    @M.reg('<String as Default>::default', 'String::new')
    def string_default(ip, pc, args, dt):
        return Str([], 0, 0)

    @M.reg('str::parse')
    def str_parse(ip, pc, args, dt):
        s = as_str(args[0])
        if 'u64' not in pc['raw']:
            raise Unsupported('str::parse to ' + pc['raw'])
        if isinstance(s, StrTok):
            v = _tok_parse_val(s.tok)
            ip.path.assume(z3.And(v >= 0, v < (1 << 64)))
            return Enum('Result', z3.If(_tok_parse_ok(s.tok), 0, 1),
                        {0: (S(v, 'u64'),), 1: (Opaque('ParseIntError'),)})
        # byte-level: optional '+', one or more ASCII digits, value < 2^64
        n = s.normalised()
        ln = n.len_t()
        cap = len(n.b)
        plus = z3.And(ln > 0, n.bt(0) == 43) if cap else z3.BoolVal(False)
        start = z3.If(plus, 1, 0)
        val = z3.IntVal(0)
        alld = z3.BoolVal(True)
        for p in range(cap):
            inr = z3.And(p >= start, ln > p)
            d = n.bt(p) - 48
            alld = z3.And(alld, z3.Implies(inr, z3.And(d >= 0, d <= 9)))
            val = z3.If(inr, val * 10 + d, val)
        okc = z3.And(ln > start, alld, val < (1 << 64))
        return Enum('Result', z3.If(okc, 0, 1), {0: (S(val, 'u64'),), 1: (Opaque('ParseIntError'),)})


class CharIndicesM(Model):
    """str::char_indices() / chars() over a byte-level string (valid UTF-8): the cursor is a char boundary.  A non-ASCII char is
    represented by some code >= 0x80 derived from its leading byte - enough for comparisons with ASCII chars, which is all the
    parsers do"""

    def __init__(self, s, pos, with_index=True):
        self.s, self.pos, self.with_index = s, pos, with_index

    def next(self, ip):
        s = self.s
        if not ip.path.branch(self.pos < s.hi, 'chars.next'):
            return self, NONE
        b = s.byte_at(self.pos)
        ln = z3.If(b < 0x80, 1, z3.If(b < 0xE0, 2, z3.If(b < 0xF0, 3, 4)))
        ch = S(z3.simplify(z3.If(b < 0x80, b, 0x80 + b)), 'char')
        item = Agg(None, [S(z3.simplify(self.pos - s.lo), 'usize'), ch]) if self.with_index else ch
        return CharIndicesM(s, z3.simplify(self.pos + ln), self.with_index), some(item)
        yield

    def ite(self, c, o):
        return self


class SplitM(Model):
    """str::split(char) / splitn(n, char): the remaining text starts at `pos`; `finished` after the last piece"""

    def __init__(self, s, c, pos, finished, limit=None):
        self.s, self.c, self.pos, self.finished, self.limit = s, c, pos, finished, limit

    def next(self, ip):
        s = self.s
        rest = Str(s.b, self.pos, s.hi)
        if self.limit is not None and self.limit <= 1:
            found, rel = z3.BoolVal(False), z3.IntVal(0)        # the last allowed piece is the whole remainder
        else:
            found, rel = rest.find_byte(self.c)
        end = z3.simplify(z3.If(found, self.pos + rel, s.hi))
        piece = Str(s.b, self.pos, end)
        nxt = SplitM(s, self.c, z3.simplify(z3.If(found, end + 1, s.hi)), z3.simplify(z3.Or(self.finished, z3.Not(found))),
                     None if self.limit is None else self.limit - 1)
        return nxt, opt_sym(z3.simplify(z3.Not(self.finished)), Ref(Loc(Cell(piece, 'split-piece'))))
        yield

    def ite(self, c, o):
        return self


# ====================================================================== formatting (Display / to_string)

class FmtArg(Model):
    def __init__(self, value, kind):
        self.value = value
        self.kind = kind


class FmtArgs(Model):
    def __init__(self, parts):
        self.parts = parts       # list of Str / StrTok / ('display', value)


class FormatterM(Model):
    def __init__(self):
        self.parts = []


def concat_strs(parts):
    """concatenation of byte-level strings as one Str (ite chains, no forking)"""
    parts = [p.normalised() for p in parts]
    if all(p.concrete() is not None for p in parts):
        data = b''.join(p.concrete() for p in parts)
        return Str(list(data), 0, len(data))
    cap = sum(len(p.b) for p in parts)
    offs = []
    acc = z3.IntVal(0)
    for p in parts:
        offs.append(acc)
        acc = z3.simplify(acc + p.len_t())
    out = []
    for j in range(cap):
        v = z3.IntVal(0)
        for p, off in zip(reversed(parts), reversed(offs)):
            v = z3.If(z3.And(off <= j, off + p.len_t() > j), p.byte_at(z3.simplify(j - off)), v)
        out.append(z3.simplify(v))
    return Str(out, 0, acc)


def parse_fmt_template(tpl):
    """new-style fmt::Arguments template: [len < 0x80, len literal bytes]* | 0xC0 (next argument, default
    options), terminated by 0.  Anything else is unsupported."""
    i, out = 0, []
    while i < len(tpl):
        b = tpl[i]
        if b == 0:
            return out
        if b == 0xC0:
            out.append(('arg',))
            i += 1
        elif b < 0x80:
            out.append(('lit', bytes(tpl[i + 1:i + 1 + b])))
            i += 1 + b
        else:
            raise Unsupported('fmt template byte 0x%02x' % b)
    return out


def display_to_str(ip, v):
    """generator: the Display output of a value as a byte-level/opaque string"""
    v = deref_all(v)
    if isinstance(v, (Str, StrTok)):
        return v
    if isinstance(v, Agg) and v.name:
        c = ip.index.methods.get((v.name, 'Display', 'fmt'))
        if c:
            f = FormatterM()
            cell = Cell(f, 'formatter')
            yield from ip.call_fn(c[0], [Ref(Loc(Cell(v, 'display-self'))), Ref(Loc(cell), True)])
            parts = cell.v.parts
            if len(parts) == 1 and isinstance(parts[0], StrTok):
                return parts[0]
            if any(isinstance(x, StrTok) for x in parts):
                # opaque strings: the rendering is an injective function of the parts' tokens
                key = 'fmt_%s_%d' % (v.name, len(parts))
                fn = z3.Function(key, *([z3.IntSort()] * (len([x for x in parts if isinstance(x, StrTok)]) + 1)))
                ip.ctx.fmt_injective.add(key)
                return StrTok(fn(*[x.tok for x in parts if isinstance(x, StrTok)]))
            return concat_strs(parts)
    if isinstance(v, S) and v.ty in INT_TYPES:
        f = z3.Function('fmt_int', z3.IntSort(), z3.IntSort())
        return StrTok(f(v.t))
    raise Unsupported('Display of %r' % (v,))
    yield


def install_fmt(ctx):
    M = ctx.models
    ctx.fmt_injective = set()

    @M.reg('Argument::new_display', 'Argument::new_debug')
    def new_display(ip, pc, args, dt):
        return FmtArg(args[0], pc['method'])

    @M.reg('Arguments::from_str', 'Arguments::from_str_nonconst', 'Arguments::new_const')
    def arguments_from_str(ip, pc, args, dt):
        v = deref_all(args[0])
        try:
            return FmtArgs([as_str(v)])
        except Exception:
            return FmtArgs([])

    @M.reg('Arguments::new')
    def arguments_new(ip, pc, args, dt):
        tpl = deref_all(args[0])
        if not isinstance(tpl, (bytes, bytearray)):
            tpl = getattr(tpl, 'data', None)
        if not isinstance(tpl, (bytes, bytearray)):
            raise Unsupported('fmt template %r' % (args[0],))
        arr = deref_all(args[1])
        fargs = list(arr.elems)
        parts = []
        k = 0
        for item in parse_fmt_template(tpl):
            if item[0] == 'lit':
                parts.append(Str(list(item[1]), 0, len(item[1])))
            else:
                parts.append(fargs[k])
                k += 1
        return FmtArgs(parts)

    @M.reg('Formatter::write_fmt')
    def write_fmt(ip, pc, args, dt):
        floc = args[0].loc
        f = read_loc(floc)
        if not isinstance(f, FormatterM):
            return ok(UNIT)      # formatting into an unobserved sink (Debug output, logging)
        a = args[1]
        for part in a.parts:
            if isinstance(part, FmtArg):
                s = yield from display_to_str(ip, part.value)
                f.parts.append(s)
            else:
                f.parts.append(part)
        return ok(UNIT)

    @M.reg('<Display>::fmt', '<Debug>::fmt')
    def int_display_fmt(ip, pc, args, dt):
        v = deref_all(args[0])
        f = read_loc(args[1].loc)
        if isinstance(v, S) and v.ty in INT_TYPES:
            if isinstance(f, FormatterM):
                fn = z3.Function('fmt_int', z3.IntSort(), z3.IntSort())
                f.parts.append(StrTok(fn(v.t)))
            return ok(UNIT)
        if isinstance(v, (Str, StrTok)):
            if isinstance(f, FormatterM):
                f.parts.append(v)
            return ok(UNIT)
        if not isinstance(f, FormatterM):
            return ok(UNIT)
        return NotImplemented

    @M.reg('Formatter::write_str')
    def write_str(ip, pc, args, dt):
        f = read_loc(args[0].loc)
        if isinstance(f, FormatterM):
            f.parts.append(as_str(args[1]))
        return ok(UNIT)

    prev = M.table.get('<ToString>::to_string')

    @M.reg('<ToString>::to_string')
    def to_string2(ip, pc, args, dt):
        v = deref_all(args[0])
        if isinstance(v, (Str, StrTok)):
            return v.normalised()
        s = yield from display_to_str(ip, v)
        return s
