"""Obligation framework: explore the paths of a MIR-executing body, discharge
post-conditions with z3 (cvc5 as second opinion in the thorough tier), keep
vacuity witnesses, collect evidence."""
import time
import json
import os
import sys
import subprocess
import tempfile
import z3
from values import *
from interp import Explorer, Interp, run_to_end, Path


class Claim:
    """post-condition to be proved on a path: `formula` must hold under the path condition"""

    def __init__(self, label, formula):
        self.label = label
        self.formula = formula


class Cover:
    """vacuity witness: `formula` must be satisfiable on at least one path"""

    def __init__(self, label, formula=True):
        self.label = label
        self.formula = formula


class ObResult:
    def __init__(self, ob):
        self.id = ob.id
        self.desc = ob.desc
        self.tier = ob.tier
        self.paths = 0
        self.ok_paths = 0
        self.pruned = 0
        self.out_of_bound = 0
        self.panics_expected = 0
        self.queries = 0
        self.claims_discharged = 0
        self.verdict = 'holds'
        self.violations = []      # dicts: label, model, path decisions, info
        self.inconclusive = []
        self.covers = {}
        self.solver_s = 0.0
        self.wall_s = 0.0
        self.samples = []
        self.cvc5 = None
        self.bounds = ob.bounds

    def to_json(self):
        return {
            'id': self.id, 'tier': self.tier, 'desc': self.desc, 'verdict': self.verdict,
            'paths_explored': self.paths, 'paths_completed': self.ok_paths, 'paths_pruned_infeasible': self.pruned,
            'paths_cut_by_bound': self.out_of_bound, 'expected_panic_paths': self.panics_expected,
            'solver_queries': self.queries, 'claims_discharged': self.claims_discharged,
            'covers': self.covers, 'violations': [{k: v for k, v in x.items() if k != 'z3model'} for x in self.violations],
            'inconclusive': self.inconclusive, 'solver_s': round(self.solver_s, 3), 'wall_s': round(self.wall_s, 3),
            'second_opinion_cvc5': self.cvc5, 'bounds': self.bounds,
        }


class Obligation:
    """Subclass or instantiate with:
       body(ip, path)  -> result object           (runs MIR; may raise PanicPath)
       post(ip, path, result) -> list of Claim / Cover
       on_panic(ip, path, exc) -> None | list of Claim/Cover  (None = panic is a violation)
    """
    id = '?'
    desc = ''
    tier = 'T1'
    bounds = {}
    unroll = 8
    max_paths = 5000

    def body(self, ip, path):
        raise NotImplementedError

    def post(self, ip, path, res):
        return []

    def on_panic(self, ip, path, exc):
        return None

    def model_info(self, path, model, res):
        """concrete description of a counterexample (for replay / reporting)"""
        return {}


def model_value(model, t):
    if isinstance(t, (int, bool, str)) or t is None:
        return t
    try:
        v = model.eval(t, model_completion=True)
    except Exception:
        return str(t)
    if z3.is_int_value(v):
        return v.as_long()
    if z3.is_true(v):
        return True
    if z3.is_false(v):
        return False
    return str(v)


PROGRESS = os.environ.get('VERIF_PROGRESS', '') != ''


def run_obligation(ctx, ob, cfg):
    """explore all paths of the obligation; returns ObResult"""
    res = ObResult(ob)
    res.ob = ob
    t0 = time.time()
    ex = Explorer(timeout_ms=cfg.get('query_timeout_ms', 60000))
    holder = {}

    def body(p):
        ip = Interp(ctx, p, unroll=getattr(ob, 'unroll', 8))
        ctx.cur_path = p
        holder['ip'] = ip
        try:
            r = ob.body(ip, p)
            if hasattr(r, '__next__'):
                r = run_to_end(r)
            return ('ret', r)
        except PanicPath as e:
            return ('panic', e)

    covers_seen = {}
    try:
        budget_s = cfg.get('ob_time_s', 900 if cfg.get('tier') == 'quick' else 10800)
        for p, outcome, payload in ex.run(body, max_paths=getattr(ob, 'max_paths', 5000)):
            res.paths += 1
            if PROGRESS and res.paths % 500 == 0:
                sys.stderr.write('    .. %s: %d paths, %.0f s\n' % (ob.id, res.paths, time.time() - t0))
                sys.stderr.flush()
            if time.time() - t0 > budget_s:
                res.inconclusive.append('time budget of %d s exceeded after %d paths' % (budget_s, res.paths))
                break
            if outcome == 'infeasible':
                res.pruned += 1
                continue
            if outcome == 'outofbound':
                res.out_of_bound += 1
                if not getattr(ob, 'allow_out_of_bound', False):
                    res.inconclusive.append('unwinding/size bound exceeded: %s' % payload)
                    continue
                hook = getattr(ob, 'on_out_of_bound', None)
                if hook is None:
                    continue
                ip = holder['ip']
                kind, r = 'cut', None
                items = hook(ip, p)
            elif outcome == 'infeasible':
                pass
            elif True:
                ip = holder['ip']
                kind, r = payload
            if kind == 'cut':
                pass
            elif kind == 'panic':
                items = ob.on_panic(ip, p, r)
                if items is None:
                    # a reachable panic: need a model of the path condition
                    st = p.check()
                    res.queries += 1
                    if st == z3.sat:
                        m = p.solver.model()
                        res.violations.append({'label': 'no-panic', 'what': str(r), 'decisions': list(p.dec),
                                               'info': ob.model_info(p, m, None), 'z3model': m})
                    elif st == z3.unknown:
                        res.inconclusive.append('unknown on panic path: %s' % r)
                    continue
                res.panics_expected += 1
            else:
                res.ok_paths += 1
                items = ob.post(ip, p, r)
            if len(res.violations) >= 8:
                break
            path_violated = False
            for it in items:
                if isinstance(it, Cover):
                    if covers_seen.get(it.label) == 'sat':
                        continue
                    f = it.formula
                    ts = time.time()
                    st = p.check(f if not isinstance(f, bool) else z3.BoolVal(f))
                    res.solver_s += time.time() - ts
                    res.queries += 1
                    if st == z3.sat:
                        covers_seen[it.label] = 'sat'
                        if len(res.samples) < 6:
                            m = p.solver.model() if False else None
                    else:
                        covers_seen.setdefault(it.label, 'unsat')
                    continue
                f = it.formula
                if isinstance(f, bool):
                    f = z3.BoolVal(f)
                ts = time.time()
                st = p.check(z3.Not(f))
                res.solver_s += time.time() - ts
                res.queries += 1
                if st == z3.unsat:
                    res.claims_discharged += 1
                    if cfg.get('cvc5') and ob.tier != 'skipcvc5':
                        _second_opinion(res, p, f, it.label, cfg)
                elif st == z3.sat:
                    if any(v['label'] == it.label for v in res.violations):
                        continue      # one counterexample per violated claim
                    p.solver.push()
                    p.solver.add(z3.Not(f))
                    p.solver.check()
                    m = p.solver.model()
                    p.solver.pop()
                    res.violations.append({'label': it.label, 'what': 'post-condition fails', 'decisions': list(p.dec),
                                           'info': ob.model_info(p, m, r), 'z3model': m})
                    path_violated = True
                else:
                    res.inconclusive.append('solver unknown on claim %s' % it.label)
    except Unsupported as e:
        res.inconclusive.append('unsupported: %s' % e)
    except z3.Z3Exception as e:
        res.inconclusive.append('z3 error: %s' % e)
    res.queries += ex.queries
    res.covers = covers_seen
    for lab in getattr(ob, 'required_covers', ()):
        covers_seen.setdefault(lab, 'never-emitted')
    for lab, st in covers_seen.items():
        if st != 'sat' and not res.violations:
            res.inconclusive.append('vacuity: cover %r unreachable' % lab)
    if res.ok_paths + res.panics_expected == 0 and not res.violations:
        res.inconclusive.append('vacuity: no path completed')
    if res.violations:
        res.verdict = 'violated'
    elif res.inconclusive:
        res.verdict = 'inconclusive'
    res.wall_s = time.time() - t0
    return res


def _second_opinion(res, p, f, label, cfg):
    """re-check pc /\\ not f with cvc5 from an SMT-LIB2 dump"""
    s = z3.Solver()
    s.add(p.pc)
    s.add(z3.Not(f))
    smt = '(set-logic ALL)\n' + s.to_smt2()
    cv = res.cvc5 or {'queries': 0, 'agree': 0, 'disagree': 0, 'unknown': 0}
    res.cvc5 = cv
    with tempfile.NamedTemporaryFile('w', suffix='.smt2', delete=False) as fh:
        fh.write(smt)
        name = fh.name
    try:
        out = subprocess.run(['cvc5', '--lang', 'smt2', '--tlimit=%d' % cfg.get('cvc5_timeout_ms', 20000), name],
                             capture_output=True, text=True, timeout=60)
        txt = out.stdout.strip()
        cv['queries'] += 1
        if '(error' in txt or '(error' in out.stderr:
            cv['unknown'] += 1
        elif txt.startswith('unsat'):
            cv['agree'] += 1
        elif txt.startswith('sat'):
            cv['disagree'] += 1
            res.inconclusive.append('cvc5 disagrees on claim %s' % label)
        else:
            cv['unknown'] += 1
    except Exception:
        cv['unknown'] += 1
    finally:
        os.unlink(name)


# ---------------------------------------------------------------------- Tier 3 helper

def find_values(v, cls, depth=0):
    """all instances of cls inside a value tree"""
    out = []
    if isinstance(v, cls):
        out.append(v)
    if depth > 6:
        return out
    if hasattr(v, 'cell') and isinstance(getattr(v, 'cell'), Cell):
        out += find_values(v.cell.v, cls, depth + 1)
    if isinstance(v, Agg):
        for f in v.fields:
            out += find_values(f, cls, depth + 1)
    elif isinstance(v, Enum):
        for pl in v.payload.values():
            for f in (pl.values() if isinstance(pl, dict) else pl):
                out += find_values(f, cls, depth + 1)
        for f in v.upvars:
            out += find_values(f, cls, depth + 1)
    return out


def responder_of(req):
    """the one-shot reply sender carried directly by a request enum value (not one buried inside its payload)"""
    from models_async import OneshotTx
    if isinstance(req, Enum):
        for pl in req.payload.values():
            for f in (pl.values() if isinstance(pl, dict) else pl):
                if isinstance(f, OneshotTx):
                    return f
    return None


def run_async(ip, p, coro, budget=2, on_suspend=None, max_polls=10):
    """Drive a coroutine value to completion; `on_suspend(k, log_so_far)` is called at each
    Pending return (k = 1, 2, ..).  Returns (result value, number of suspensions)."""
    from models_async import poll_future
    cell = Cell(coro, 'future')
    p.pending_budget = budget
    k = 0
    for _ in range(max_polls):
        r = run_to_end(poll_future(ip, Loc(cell)))
        if r.discr == 0:
            return r.payload[0][0], k
        k += 1
        if on_suspend is not None:
            on_suspend(k, list(p.log))
    raise OutOfBound('future still pending after %d polls' % max_polls)
