"""Value domain of the MIR symbolic executor.

All values are immutable; a write through a place rebuilds the path from the
root cell (functional update), so `copy`/`move` never alias mutable state.
"""
import z3

INT_TYPES = {
    'u8': (8, False), 'u16': (16, False), 'u32': (32, False), 'u64': (64, False),
    'u128': (128, False), 'usize': (64, False),
    'i8': (8, True), 'i16': (16, True), 'i32': (32, True), 'i64': (64, True),
    'i128': (128, True), 'isize': (64, True), 'char': (32, False),
}


def int_range(ty):
    w, signed = INT_TYPES[ty]
    if signed:
        return -(1 << (w - 1)), (1 << (w - 1)) - 1
    return 0, (1 << w) - 1


class S:
    """scalar: z3 term + rust type name ('bool', 'u64', ..., or a model sort such
    as 'Instant' / 'Duration' whose term is an Int of nanoseconds)"""
    __slots__ = ('t', 'ty')

    def __init__(self, t, ty):
        self.t = t
        self.ty = ty

    def __repr__(self):
        return 'S(%s:%s)' % (self.t, self.ty)


class Agg:
    """struct / tuple / closure environment / array"""
    __slots__ = ('name', 'fields')

    def __init__(self, name, fields):
        self.name = name
        self.fields = tuple(fields)

    def __repr__(self):
        return 'Agg(%s%r)' % (self.name or '', list(self.fields))


UNIT = Agg(None, ())


class Enum:
    """enum value (also coroutine state objects).  `discr` is a python int or a
    z3 Int term; `payload` maps variant index -> tuple/dict of field values;
    `upvars` are fields addressed without a downcast (coroutines)."""
    __slots__ = ('name', 'discr', 'payload', 'upvars')

    def __init__(self, name, discr, payload=None, upvars=()):
        self.name = name
        self.discr = discr
        self.payload = payload or {}
        self.upvars = tuple(upvars)

    def __repr__(self):
        return 'Enum(%s#%s %r)' % (self.name, self.discr, self.payload)


class Ref:
    __slots__ = ('loc', 'mut')

    def __init__(self, loc, mut=False):
        self.loc = loc
        self.mut = mut

    def __repr__(self):
        return 'Ref(%r)' % (self.loc,)


class Cell:
    __slots__ = ('v', 'name', 'dropped')

    def __init__(self, v=None, name=''):
        self.v = v
        self.name = name
        self.dropped = False

    def get(self):
        return self.v

    def set(self, v):
        self.v = v

    def __repr__(self):
        return 'Cell(%s)' % self.name


class Loc:
    """a location: a root (anything with get()/set()) plus a path of
    ('f', i) field / ('v', k) variant-payload / ('u', i) upvar / ('i', n) index steps"""
    __slots__ = ('root', 'path')

    def __init__(self, root, path=()):
        self.root = root
        self.path = tuple(path)

    def extend(self, step):
        return Loc(self.root, self.path + (step,))

    def __repr__(self):
        return 'Loc(%r%s)' % (self.root, ''.join('/%s%s' % s for s in self.path))


class Closure(Agg):
    __slots__ = ('loc_text',)

    def __init__(self, loc_text, fields):
        Agg.__init__(self, 'closure', fields)
        self.loc_text = loc_text

    def __repr__(self):
        return 'Closure(%s %r)' % (self.loc_text, list(self.fields))


class FnItem:
    __slots__ = ('path',)

    def __init__(self, path):
        self.path = path

    def __repr__(self):
        return 'FnItem(%s)' % self.path


class Opaque:
    """a value the executor does not look into (formatting arguments, loggers,
    tonic metadata, ...).  Carries a tag for effect-log matching."""
    __slots__ = ('tag', 'data')

    def __init__(self, tag, data=None):
        self.tag = tag
        self.data = data

    def __repr__(self):
        return 'Opaque(%s)' % (self.tag,)


class Model:
    """base class of contract-model values (collections, iterators, sync objects)"""
    pass


class PanicPath(Exception):
    """the executed code panics / hits UB on this path"""

    def __init__(self, kind, msg):
        Exception.__init__(self, '%s: %s' % (kind, msg))
        self.kind = kind
        self.msg = msg


class Unsupported(Exception):
    """the executor has no rule for a construct/callee: obligation inconclusive"""
    pass


class Infeasible(Exception):
    """path condition became unsatisfiable / an assumption cut the path"""
    pass


class OutOfBound(Exception):
    """the path needs more than the stated bound (unrolling, slots)"""
    pass


# ------------------------------------------------------------------ ite merge

def ite_val(c, a, b):
    """value-level if-then-else over two values of the same shape"""
    if a is b:
        return a
    if isinstance(a, S) and isinstance(b, S):
        if a.t is b.t or z3.eq(a.t, b.t):
            return a
        return S(z3.If(c, a.t, b.t), a.ty)
    if isinstance(a, Closure) and isinstance(b, Closure):
        return Closure(a.loc_text, [ite_val(c, x, y) for x, y in zip(a.fields, b.fields)])
    if isinstance(a, Agg) and isinstance(b, Agg):
        if len(a.fields) != len(b.fields):
            raise Unsupported('ite over aggregates of different shape: %r / %r' % (a, b))
        return Agg(a.name, [ite_val(c, x, y) for x, y in zip(a.fields, b.fields)])
    if isinstance(a, Enum) and isinstance(b, Enum):
        da = a.discr if not isinstance(a.discr, int) else z3.IntVal(a.discr)
        db = b.discr if not isinstance(b.discr, int) else z3.IntVal(b.discr)
        if isinstance(a.discr, int) and isinstance(b.discr, int) and a.discr == b.discr:
            d = a.discr
        else:
            d = z3.If(c, da, db)
        pl = {}
        for k in set(a.payload) | set(b.payload):
            if k in a.payload and k in b.payload:
                pa, pb = a.payload[k], b.payload[k]
                if isinstance(pa, dict):
                    pl[k] = {i: (ite_val(c, pa[i], pb[i]) if i in pa and i in pb else pa.get(i, pb.get(i)))
                             for i in set(pa) | set(pb)}
                else:
                    pl[k] = tuple(ite_val(c, x, y) for x, y in zip(pa, pb))
            else:
                pl[k] = a.payload.get(k, b.payload.get(k))
        return Enum(a.name, d, pl, [ite_val(c, x, y) for x, y in zip(a.upvars, b.upvars)])
    if isinstance(a, Model) and isinstance(b, Model) and hasattr(a, 'ite'):
        return a.ite(c, b)
    if isinstance(a, Opaque) and isinstance(b, Opaque):
        return a
    if isinstance(a, Ref) and isinstance(b, Ref):
        if a.loc is b.loc:
            return a
        # refs to immutable temporaries: merge the pointees into a fresh cell
        return Ref(Loc(Cell(ite_val(c, read_loc(a.loc), read_loc(b.loc)), 'ite')), a.mut)
    raise Unsupported('ite over %r / %r' % (type(a).__name__, type(b).__name__))


def eq_val(a, b):
    """structural equality of two values as a z3 Bool"""
    if isinstance(a, S) and isinstance(b, S):
        return a.t == b.t
    if isinstance(a, Agg) and isinstance(b, Agg):
        if len(a.fields) != len(b.fields):
            return z3.BoolVal(False)
        return z3.And([eq_val(x, y) for x, y in zip(a.fields, b.fields)] or [z3.BoolVal(True)])
    if isinstance(a, Enum) and isinstance(b, Enum):
        da = a.discr if not isinstance(a.discr, int) else z3.IntVal(a.discr)
        db = b.discr if not isinstance(b.discr, int) else z3.IntVal(b.discr)
        conj = [da == db]
        for k in set(a.payload) & set(b.payload):
            pa, pb = a.payload[k], b.payload[k]
            if isinstance(pa, dict):
                continue
            if pa:
                conj.append(z3.Implies(da == k, z3.And([eq_val(x, y) for x, y in zip(pa, pb)])))
        return z3.And(conj)
    if isinstance(a, Model) and hasattr(a, 'eq'):
        return a.eq(b)
    if isinstance(a, Ref) and isinstance(b, Ref):
        return eq_val(read_loc(a.loc), read_loc(b.loc))
    raise Unsupported('eq over %r / %r' % (type(a).__name__, type(b).__name__))


# ------------------------------------------------------------------ locations

def _step_get(v, step):
    k, i = step
    if k == 'f':
        if isinstance(v, Enum):
            return v.upvars[i]
        if hasattr(v, 'get_field'):
            return v.get_field(i)
        return v.fields[i]
    if k == 'v':
        return v  # downcast is a no-op on the value; the following field step selects payload
    if k == 'vf':
        var, idx = i
        pl = v.payload.get(var)
        if pl is None:
            raise Unsupported('read of absent variant payload %r in %r' % (var, v))
        return pl[idx]
    if k == 'i':
        return v.index(i)
    raise Unsupported('step %r' % (step,))


def _step_set(v, step, new):
    k, i = step
    if k == 'f':
        if isinstance(v, Enum):
            up = list(v.upvars)
            up[i] = new
            return Enum(v.name, v.discr, v.payload, up)
        if hasattr(v, 'set_field'):
            return v.set_field(i, new)
        fs = list(v.fields)
        fs[i] = new
        if isinstance(v, Closure):
            return Closure(v.loc_text, fs)
        return Agg(v.name, fs)
    if k == 'vf':
        var, idx = i
        pl = dict(v.payload)
        cur = pl.get(var)
        if isinstance(cur, dict) or cur is None:
            d = dict(cur or {})
            d[idx] = new
            pl[var] = d
        else:
            l = list(cur)
            l[idx] = new
            pl[var] = tuple(l)
        return Enum(v.name, v.discr, pl, v.upvars)
    if k == 'i':
        return v.set_index(i, new)
    raise Unsupported('step %r' % (step,))


def read_loc(loc):
    v = loc.root.get()
    for st in loc.path:
        if st[0] == 'v':
            continue
        v = _step_get(v, st)
    return v


def write_loc(loc, new):
    path = [st for st in loc.path if st[0] != 'v']
    if not path:
        loc.root.set(new)
        return
    root = loc.root.get()
    stack = [root]
    for st in path[:-1]:
        stack.append(_step_get(stack[-1], st))
    cur = new
    for st, parent in zip(reversed(path), reversed(stack)):
        cur = _step_set(parent, st, cur)
    loc.root.set(cur)
