"""Index of the Rust *source* of the snapshot: struct field order, enum variant
order, and what each `impl` span (as printed in MIR function names,
`<impl at file:line:col: line:col>`) implements.  Regenerated on every run from
the snapshot, so field re-ordering or renaming in the source is followed."""
import os
import re


class SrcIndex:
    def __init__(self, root):
        self.root = root
        self.files = {}      # relpath -> list of lines
        self.structs = {}    # (file, Name) -> [field names]   (tuple structs: ['0','1',..])
        self.enums = {}      # (file, Name) -> [(variant, [field names] | None)]
        self.by_name = {}    # Name -> [(file, kind)]
        for dp, _, fns in os.walk(os.path.join(root, 'src')):
            for fn in fns:
                if fn.endswith('.rs'):
                    p = os.path.join(dp, fn)
                    rel = os.path.relpath(p, root)
                    with open(p) as f:
                        self.files[rel] = f.read().split('\n')
        for rel, lines in self.files.items():
            self._scan_types(rel, lines)

    # ------------------------------------------------------------ types
    def _scan_types(self, rel, lines):
        text = '\n'.join(lines)
        # strip comments
        text_nc = re.sub(r'//[^\n]*', '', text)
        for m in re.finditer(r'\b(struct|enum)\s+(\w+)\s*(<[^>{(]*>)?\s*(\{|\(|;)', text_nc):
            kind, name, _, opener = m.groups()
            if opener == ';':
                if kind == 'struct':
                    self.structs[(rel, name)] = []
                    self.by_name.setdefault(name, []).append((rel, 'struct'))
                continue
            start = m.end() - 1
            end = _match(text_nc, start)
            body = text_nc[start + 1:end]
            if kind == 'struct':
                if opener == '{':
                    fields = [f for f in (_field_name(x) for x in _split(body)) if f]
                    self.field_types = getattr(self, 'field_types', {})
                    for x in _split(body):
                        fn_ = _field_name(x)
                        if fn_:
                            self.field_types[(rel, name, fn_)] = re.sub(r'#\[[^\]]*\]', '', x).split(':', 1)[1].strip()
                else:
                    fields = [str(i) for i, x in enumerate(_split(body)) if x.strip()]
                self.structs[(rel, name)] = fields
                self.by_name.setdefault(name, []).append((rel, 'struct'))
            else:
                variants = []
                for part in _split(body):
                    part = re.sub(r'#\[[^\]]*\]', '', part).strip()
                    if not part:
                        continue
                    vm = re.match(r'(\w+)\s*(\{|\()?', part)
                    vname = vm.group(1)
                    if vm.group(2) == '{':
                        b = part[part.index('{') + 1:part.rindex('}')]
                        vf = [f for f in (_field_name(x) for x in _split(b)) if f]
                    elif vm.group(2) == '(':
                        b = part[part.index('(') + 1:part.rindex(')')]
                        vf = [str(i) for i, x in enumerate(_split(b)) if x.strip()]
                    else:
                        vf = []
                    variants.append((vname, vf))
                self.enums[(rel, name)] = variants
                self.by_name.setdefault(name, []).append((rel, 'enum'))

    def struct_fields(self, name, hint=''):
        c = [(rel, k) for rel, k in self.by_name.get(name, []) if k == 'struct']
        if not c:
            return None
        rel = _best(c, hint)
        return self.structs[(rel, name)]

    def field_type(self, name, field, hint=''):
        c = [(rel, k) for rel, k in self.by_name.get(name, []) if k == 'struct']
        if not c:
            return None
        rel = _best(c, hint)
        return getattr(self, 'field_types', {}).get((rel, name, field))

    def enum_variants(self, name, hint=''):
        c = [(rel, k) for rel, k in self.by_name.get(name, []) if k == 'enum']
        if not c:
            return None
        rel = _best(c, hint)
        return self.enums[(rel, name)]

    # ------------------------------------------------------------ impls
    def impl_info(self, file, line, col):
        """(trait or None, self type name, derived?) for the impl whose span starts at
        file:line:col."""
        lines = self.files.get(file)
        if lines is None or line - 1 >= len(lines):
            return None
        src = lines[line - 1]
        frag = src[col - 1:]
        if frag.startswith('impl'):
            # join following lines until '{'
            k = line - 1
            acc = frag
            while '{' not in acc and k + 1 < len(lines):
                k += 1
                acc += ' ' + lines[k].strip()
            head = acc.split('{')[0]
            head = re.sub(r'^impl\s*(<[^>]*>)?\s*', '', head).strip()
            head = head.split(' where ')[0].strip()
            if ' for ' in head:
                tr, ty = head.split(' for ', 1)
                return (_last_ident(tr), _last_ident(ty), False)
            return (None, _last_ident(head), False)
        # derive: the span covers the trait name inside #[derive(..)]
        if 'derive' in src or re.match(r'\w+', frag):
            m = re.match(r'(\w+)', frag)
            tr = m.group(1) if m else None
            # thiserror::Error derive is printed as `Error`
            for k in range(line - 1, min(len(lines), line + 12)):
                mm = re.search(r'\b(struct|enum)\s+(\w+)', lines[k])
                if mm:
                    return (tr, mm.group(2), True)
        return None


def _last_ident(s):
    s = re.sub(r'<.*>', '', s.strip())
    s = s.strip().lstrip('&').strip()
    return s.split('::')[-1].strip()


def _best(cands, hint):
    if len(cands) == 1 or not hint:
        return cands[0][0]
    segs = [x for x in re.split(r'[:/\.]+', hint) if x]
    best, score = cands[0][0], -1
    for rel, _ in cands:
        parts = re.split(r'[/\.]+', rel)
        sc = sum(1 for x in segs if x in parts)
        if sc > score:
            best, score = rel, sc
    return best


def _match(s, i):
    pairs = {'{': '}', '(': ')'}
    o = s[i]
    c = pairs[o]
    depth = 0
    for j in range(i, len(s)):
        if s[j] == o:
            depth += 1
        elif s[j] == c:
            depth -= 1
            if depth == 0:
                return j
    raise ValueError('unbalanced')


def _split(body):
    out, depth, cur = [], 0, []
    prev = ''
    for ch in body:
        if ch in '<({[':
            depth += 1
        elif ch in ')}]':
            depth -= 1
        elif ch == '>' and prev != '-':
            depth -= 1
        if ch == ',' and depth == 0:
            out.append(''.join(cur))
            cur = []
        else:
            cur.append(ch)
        prev = ch
    if ''.join(cur).strip():
        out.append(''.join(cur))
    return out


def _field_name(part):
    part = re.sub(r'#\[[^\]]*\]', '', part).strip()
    m = re.match(r'(?:pub(?:\([^)]*\))?\s+)?(\w+)\s*:', part)
    return m.group(1) if m else None
