"""Contract models: Option / Result combinators, Clone, Deref, comparisons,
conversions, integer helpers.  Each model follows the documented std
behaviour; every key that is used is listed in the evidence."""
import re
import z3
from values import *
from interp import bool_s, mk_int, concrete_int, wrap_int, last_type_name


# ------------------------------------------------------------------ helpers

def some(v):
    return Enum('Option', 1, {1: (v,)})


NONE = Enum('Option', 0, {})


def opt_sym(cond, v):
    """Option that is Some(v) iff cond"""
    c = z3.simplify(cond)
    if z3.is_true(c):
        return some(v)
    if z3.is_false(c):
        return NONE
    return Enum('Option', z3.If(c, 1, 0), {1: (v,)})


def ok(v):
    return Enum('Result', 0, {0: (v,)})


def err(v):
    return Enum('Result', 1, {1: (v,)})


def variant_of(ip, e, candidates=(0, 1)):
    """concretise an enum discriminant by branching"""
    if isinstance(e.discr, int):
        return e.discr
    c = concrete_int(e.discr)
    if c is not None:
        return c
    cands = list(candidates)
    for k in cands[:-1]:
        if ip.path.branch(e.discr == k, 'variant'):
            return k
    ip.path.assume(e.discr == cands[-1])
    return cands[-1]


def deref_all(v):
    while isinstance(v, Ref):
        v = read_loc(v.loc)
    return v


def lex_cmp(a, b):
    """(lt, eq) as z3 Bools for the structural / derived ordering"""
    if isinstance(a, S):
        if a.ty == 'bool':
            return z3.And(z3.Not(a.t), b.t), a.t == b.t
        return a.t < b.t, a.t == b.t
    if isinstance(a, Agg):
        lt = z3.BoolVal(False)
        eq = z3.BoolVal(True)
        for x, y in zip(a.fields, b.fields):
            l, e = lex_cmp(x, y)
            lt = z3.Or(lt, z3.And(eq, l))
            eq = z3.And(eq, e)
        return lt, eq
    if isinstance(a, Enum):
        da = a.discr if not isinstance(a.discr, int) else z3.IntVal(a.discr)
        db = b.discr if not isinstance(b.discr, int) else z3.IntVal(b.discr)
        lt = da < db
        eq = da == db
        for k in set(a.payload) & set(b.payload):
            if a.payload[k] and not isinstance(a.payload[k], dict):
                l, e = lex_cmp(Agg(None, a.payload[k]), Agg(None, b.payload[k]))
                lt = z3.Or(lt, z3.And(da == k, db == k, l))
                eq = z3.And(eq, z3.Implies(z3.And(da == k, db == k), e))
        return lt, eq
    if hasattr(a, 'lex_cmp'):
        return a.lex_cmp(b)
    raise Unsupported('ordering of %r' % (a,))


def install(ctx):
    M = ctx.models

    # ---------------------------------------------------------- Option
    @M.reg('Option::map')
    def option_map(ip, pc, args, dt):
        o, f = args
        if variant_of(ip, o) == 0:
            return NONE
        r = yield from ip.call_closure(f, [o.payload[1][0]])
        return some(r)

    @M.reg('Option::unwrap_or')
    def option_unwrap_or(ip, pc, args, dt):
        o, d = args
        if isinstance(o.discr, int):
            return o.payload[1][0] if o.discr == 1 else d
        return ite_val(o.discr == 1, o.payload[1][0], d)

    @M.reg('Option::unwrap_or_else')
    def option_unwrap_or_else(ip, pc, args, dt):
        o, f = args
        if variant_of(ip, o) == 1:
            return o.payload[1][0]
        r = yield from ip.call_closure(f, [])
        return r

    @M.reg('Option::map_or_else')
    def option_map_or_else(ip, pc, args, dt):
        o, dflt, f = args
        if variant_of(ip, o) == 0:
            r = yield from ip.call_closure(dflt, [])
            return r
        r = yield from ip.call_closure(f, [o.payload[1][0]])
        return r

    @M.reg('Option::map_or')
    def option_map_or(ip, pc, args, dt):
        o, dflt, f = args
        if variant_of(ip, o) == 0:
            return dflt
        r = yield from ip.call_closure(f, [o.payload[1][0]])
        return r

    @M.reg('Option::or_else')
    def option_or_else(ip, pc, args, dt):
        o, f = args
        if variant_of(ip, o) == 1:
            return o
        r = yield from ip.call_closure(f, [])
        return r

    @M.reg('Option::or')
    def option_or(ip, pc, args, dt):
        o, d = args
        if variant_of(ip, o) == 1:
            return o
        return d

    @M.reg('Option::and_then')
    def option_and_then(ip, pc, args, dt):
        o, f = args
        if variant_of(ip, o) == 0:
            return NONE
        r = yield from ip.call_closure(f, [o.payload[1][0]])
        return r

    @M.reg('Option::filter')
    def option_filter(ip, pc, args, dt):
        o, f = args
        if variant_of(ip, o) == 0:
            return NONE
        keep = yield from ip.call_closure(f, [Ref(Loc(Cell(o.payload[1][0], 'filter-arg')))])
        if ip.path.branch(keep.t, 'Option::filter'):
            return o
        return NONE

    @M.reg('Option::is_some_and', 'Option::is_none_or')
    def option_is_some_and(ip, pc, args, dt):
        o, f = args
        some_ = variant_of(ip, o) == 1
        if not some_:
            return bool_s(z3.BoolVal(pc['method'] == 'is_none_or'))
        r = yield from ip.call_closure(f, [o.payload[1][0]])
        return r

    @M.reg('Option::replace', 'Option::insert')
    def option_replace(ip, pc, args, dt):
        r = args[0]
        old = read_loc(r.loc)
        write_loc(r.loc, some(args[1]))
        if pc['method'] == 'insert':
            return Ref(r.loc.extend(('vf', (1, 0))), True)
        return old

    @M.reg('Option::get_or_insert_with')
    def option_get_or_insert_with(ip, pc, args, dt):
        r, f = args
        o = read_loc(r.loc)
        if variant_of(ip, o) == 0:
            v = yield from ip.call_closure(f, [])
            write_loc(r.loc, some(v))
        return Ref(r.loc.extend(('vf', (1, 0))), True)

    @M.reg('Option::unwrap_or_default')
    def option_unwrap_or_default(ip, pc, args, dt):
        o, = args
        if variant_of(ip, o) == 1:
            return o.payload[1][0]
        r = yield from ip.call('<%s as Default>::default' % _generic_arg(pc['raw']), [], dt)
        return r

    @M.reg('Option::unwrap', 'Option::expect')
    def option_unwrap(ip, pc, args, dt):
        o = args[0]
        if variant_of(ip, o) == 0:
            raise PanicPath('panic', 'unwrap on None')
        return o.payload[1][0]

    @M.reg('Option::unwrap_unchecked')
    def option_unwrap_unchecked(ip, pc, args, dt):
        o = args[0]
        if variant_of(ip, o) == 0:
            raise PanicPath('ub', 'unwrap_unchecked on None')
        return o.payload[1][0]

    @M.reg('Option::ok_or')
    def option_ok_or(ip, pc, args, dt):
        o, e = args
        if variant_of(ip, o) == 1:
            return ok(o.payload[1][0])
        return err(e)

    @M.reg('Option::ok_or_else')
    def option_ok_or_else(ip, pc, args, dt):
        o, f = args
        if variant_of(ip, o) == 1:
            return ok(o.payload[1][0])
        e = yield from ip.call_closure(f, [])
        return err(e)

    @M.reg('Option::is_some')
    def option_is_some(ip, pc, args, dt):
        o = deref_all(args[0])
        d = o.discr if not isinstance(o.discr, int) else z3.IntVal(o.discr)
        return bool_s(d == 1)

    @M.reg('Option::is_none')
    def option_is_none(ip, pc, args, dt):
        o = deref_all(args[0])
        d = o.discr if not isinstance(o.discr, int) else z3.IntVal(o.discr)
        return bool_s(d == 0)

    @M.reg('Option::take')
    def option_take(ip, pc, args, dt):
        r = args[0]
        o = read_loc(r.loc)
        write_loc(r.loc, NONE)
        return o

    @M.reg('Option::as_ref', 'Option::as_mut')
    def option_as_ref(ip, pc, args, dt):
        r = args[0]
        o = read_loc(r.loc)
        if variant_of(ip, o) == 0:
            return NONE
        return some(Ref(r.loc.extend(('vf', (1, 0))), pc['method'] == 'as_mut'))

    @M.reg('Option::cloned', 'Option::copied')
    def option_cloned(ip, pc, args, dt):
        o = args[0]
        if isinstance(o.discr, int) and o.discr == 0:
            return NONE
        return Enum('Option', o.discr, {1: (deref_all(o.payload[1][0]),)})

    @M.reg('Option::transpose')
    def option_transpose(ip, pc, args, dt):
        o = args[0]
        if variant_of(ip, o) == 0:
            return ok(NONE)
        r = o.payload[1][0]
        if variant_of(ip, r) == 0:
            return ok(some(r.payload[0][0]))
        return err(r.payload[1][0])

    @M.reg('<Try>::branch')
    def try_branch(ip, pc, args, dt):
        v = args[0]
        if v.name == 'Result':
            if variant_of(ip, v) == 0:
                return Enum('ControlFlow', 0, {0: (v.payload[0][0],)})
            return Enum('ControlFlow', 1, {1: (err(v.payload[1][0]),)})
        if v.name == 'Option':
            if variant_of(ip, v) == 1:
                return Enum('ControlFlow', 0, {0: (v.payload[1][0],)})
            return Enum('ControlFlow', 1, {1: (NONE,)})
        raise Unsupported('Try::branch on %r' % (v,))

    @M.reg('<FromResidual>::from_residual')
    def from_residual(ip, pc, args, dt):
        v = args[0]
        if isinstance(v, Enum) and v.name == 'Result':
            e = v.payload[1][0]
            # `?` converts the error with From; identical types in this crate
            # except where a From impl exists (then the MIR names it explicitly).
            return err(e)
        if isinstance(v, Enum) and v.name == 'Option':
            return NONE
        raise Unsupported('from_residual %r' % (v,))

    # ---------------------------------------------------------- Result
    @M.reg('Result::map_err')
    def result_map_err(ip, pc, args, dt):
        r, f = args
        if variant_of(ip, r) == 0:
            return r
        e = yield from ip.call_closure(f, [r.payload[1][0]])
        return err(e)

    @M.reg('Result::map')
    def result_map(ip, pc, args, dt):
        r, f = args
        if variant_of(ip, r) == 1:
            return r
        v = yield from ip.call_closure(f, [r.payload[0][0]])
        return ok(v)

    @M.reg('Result::ok')
    def result_ok(ip, pc, args, dt):
        r = args[0]
        if variant_of(ip, r) == 0:
            return some(r.payload[0][0])
        return NONE

    @M.reg('Result::unwrap_or')
    def result_unwrap_or(ip, pc, args, dt):
        r, d = args
        if variant_of(ip, r) == 0:
            return r.payload[0][0]
        return d

    @M.reg('Result::unwrap', 'Result::expect')
    def result_unwrap(ip, pc, args, dt):
        r = args[0]
        if variant_of(ip, r) == 1:
            raise PanicPath('panic', 'unwrap on Err')
        return r.payload[0][0]

    @M.reg('Result::is_ok', 'Result::is_err')
    def result_is_ok(ip, pc, args, dt):
        r = deref_all(args[0])
        d = r.discr if not isinstance(r.discr, int) else z3.IntVal(r.discr)
        return bool_s(d == (0 if pc['method'] == 'is_ok' else 1))

    # ---------------------------------------------------------- Clone / Deref / Borrow
    @M.reg('<Clone>::clone')
    def clone(ip, pc, args, dt):
        return read_loc(args[0].loc)

    @M.reg('<Clone>::clone_from')
    def clone_from(ip, pc, args, dt):
        write_loc(args[0].loc, deref_all(args[1]))
        return UNIT

    @M.reg('<ToOwned>::to_owned')
    def to_owned(ip, pc, args, dt):
        return deref_all(args[0])

    @M.reg('<Deref>::deref', '<DerefMut>::deref_mut', '<AsRef>::as_ref', '<Borrow>::borrow')
    def deref(ip, pc, args, dt):
        r = args[0]
        inner = read_loc(r.loc)
        if hasattr(inner, 'deref_loc'):
            return Ref(inner.deref_loc(ip), pc['method'] == 'deref_mut')
        # String -> &str, Vec<T> -> &[T], Box<T> -> &T: same representation
        return r

    @M.reg('drop', '::drop', 'mem::drop', 'mem::forget')
    def drop(ip, pc, args, dt):
        return UNIT

    # ---------------------------------------------------------- comparisons
    @M.reg('<PartialEq>::eq', '<PartialEq>::ne')
    def partial_eq(ip, pc, args, dt):
        a, b = deref_all(args[0]), deref_all(args[1])
        e = eq_val(a, b)
        return bool_s(e if pc['method'] == 'eq' else z3.Not(e))

    @M.reg('<PartialOrd>::lt', '<PartialOrd>::le', '<PartialOrd>::gt', '<PartialOrd>::ge')
    def partial_ord(ip, pc, args, dt):
        a, b = deref_all(args[0]), deref_all(args[1])
        lt, eq = lex_cmp(a, b)
        m = pc['method']
        if m == 'lt':
            return bool_s(lt)
        if m == 'le':
            return bool_s(z3.Or(lt, eq))
        if m == 'gt':
            return bool_s(z3.Not(z3.Or(lt, eq)))
        return bool_s(z3.Not(lt))

    @M.reg('<Ord>::cmp', '<PartialOrd>::partial_cmp')
    def ord_cmp(ip, pc, args, dt):
        a, b = deref_all(args[0]), deref_all(args[1])
        lt, eq = lex_cmp(a, b)
        o = Enum('Ordering', z3.If(lt, -1, z3.If(eq, 0, 1)))
        return o if pc['method'] == 'cmp' else some(o)

    @M.reg('<Ord>::max')
    def ord_max(ip, pc, args, dt):
        a, b = args
        lt, eq = lex_cmp(b, a)
        return ite_val(lt, a, b)          # std: max_by returns v2 unless v1 > v2

    @M.reg('<Ord>::min')
    def ord_min(ip, pc, args, dt):
        a, b = args
        lt, eq = lex_cmp(b, a)
        return ite_val(lt, b, a)          # std: returns v1 unless v2 < v1

    @M.reg('<Ord>::clamp')
    def ord_clamp(ip, pc, args, dt):
        v, lo, hi = args
        l, _ = lex_cmp(hi, lo)
        if ip.path.branch(l, 'clamp assert'):
            raise PanicPath('panic', 'clamp: min > max')
        lt_lo, _ = lex_cmp(v, lo)
        gt_hi, _ = lex_cmp(hi, v)
        return ite_val(lt_lo, lo, ite_val(gt_hi, hi, v))

    @M.reg('usize::min', 'u64::min', 'u32::min', 'u16::min', 'core::cmp::min', 'cmp::min')
    def int_min(ip, pc, args, dt):
        a, b = args
        return S(z3.If(b.t < a.t, b.t, a.t), a.ty)

    @M.reg('usize::max', 'u64::max', 'u32::max', 'u16::max', 'cmp::max')
    def int_max(ip, pc, args, dt):
        a, b = args
        return S(z3.If(b.t < a.t, a.t, b.t), a.ty)

    # ---------------------------------------------------------- integer helpers
    def _int_method(name):
        def h(ip, pc, args, dt):
            a = args[0]
            if not (isinstance(a, S) and a.ty in INT_TYPES):
                return NotImplemented
            lo, hi = int_range(a.ty)
            b = args[1].t if len(args) > 1 else None
            raw = {'add': lambda: a.t + b, 'sub': lambda: a.t - b, 'mul': lambda: a.t * b}[name.split('_')[1]]()
            kind = name.split('_')[0]
            if kind == 'saturating':
                return S(z3.If(raw > hi, hi, z3.If(raw < lo, lo, raw)), a.ty)
            if kind == 'wrapping':
                return S(wrap_int(raw, a.ty), a.ty)
            if kind == 'checked':
                return opt_sym(z3.And(raw >= lo, raw <= hi), S(raw, a.ty))
            if kind == 'overflowing':
                return Agg(None, [S(wrap_int(raw, a.ty), a.ty), bool_s(z3.Or(raw > hi, raw < lo))])
            return NotImplemented
        return h
    for kind in ('saturating', 'wrapping', 'checked', 'overflowing'):
        for opn in ('add', 'sub', 'mul'):
            M.register('::%s_%s' % (kind, opn), _int_method('%s_%s' % (kind, opn)))
            for ty in ('usize', 'u64', 'u32', 'u16', 'u8', 'i32', 'i64'):
                M.register('%s::%s_%s' % (ty, kind, opn), _int_method('%s_%s' % (kind, opn)))

    # ---------------------------------------------------------- conversions
    @M.reg('<TryFrom>::try_from', '<TryInto>::try_into')
    def try_from(ip, pc, args, dt):
        v = args[0]
        if isinstance(v, S) and v.ty in INT_TYPES:
            # target type from the destination Result<T, _>
            tgt = _result_ok_ty(dt)
            if tgt in INT_TYPES:
                lo, hi = int_range(tgt)
                inr = z3.And(v.t >= lo, v.t <= hi)
                return Enum('Result', z3.If(inr, 0, 1), {0: (S(v.t, tgt),), 1: (Opaque('TryFromIntError'),)})
        if hasattr(v, 'try_into'):
            return v.try_into(ip, dt)
        inner = deref_all(v)
        if inner is not v:
            # <[u8; N]>::try_from(&[u8]) on what a Vec<u8> dereferences to: same as Vec::try_into
            h = ip.ctx.models.table.get('<Vec as TryInto>::try_into')
            if h is not None:
                r = h(ip, pc, [inner], dt)
                if r is not NotImplemented:
                    return r
        raise Unsupported('try_from %r -> %s' % (v, dt))

    @M.reg('<From>::from', '<Into>::into')
    def from_(ip, pc, args, dt):
        v = args[0]
        raw = pc.get('trait_raw', '')
        i = raw.find('<')
        if i >= 0 and pc.get('qself'):
            from mirparse import match_close
            tgt = raw[i + 1:match_close(raw, i)].strip()
            if last_type_name(tgt) == last_type_name(pc['qself']) and tgt.count('<') == pc['qself'].count('<'):
                return v        # reflexive impl: `impl<T> From<T> for T`
        if isinstance(v, S) and v.ty in INT_TYPES and dt and dt.strip() in INT_TYPES:
            return S(v.t, dt.strip())
        if hasattr(v, 'convert'):
            r = v.convert(ip, dt)
            if r is not NotImplemented:
                return r
        if isinstance(v, Ref) and hasattr(read_loc(v.loc), 'convert'):
            r = read_loc(v.loc).convert(ip, dt)
            if r is not NotImplemented:
                return r
        return NotImplemented

    @M.reg('<Default>::default')
    def default(ip, pc, args, dt):
        ty = last_type_name(pc['qself'] or dt or '')
        if ty in INT_TYPES:
            return mk_int(0, ty)
        if ty == 'bool':
            return bool_s(z3.BoolVal(False))
        h = ip.ctx.default_models.get(ty) if hasattr(ip.ctx, 'default_models') else None
        if h:
            return h(ip)
        # a prost-generated protocol message: every field at its protocol default
        order = ip.ctx.src.struct_fields(ty, 'pubsub_proto_generated') if ty else None
        if order and ip.ctx.src.field_type(ty, order[0], 'pubsub_proto_generated') is not None and 'pubsub_proto' in (pc['qself'] or dt or ''):
            from models_str import Str
            from models_coll import Seq
            from models_bytes import AttrMapTok, BytesTok
            vals = []
            for f in order:
                ft = re.sub(r'\s+', '', ip.ctx.src.field_type(ty, f, 'pubsub_proto_generated') or '')
                ft = ft.lstrip(':')
                if re.search(r'(^|::)Option<', ft) and not re.search(r'(^|::)(Vec|HashMap)<', ft.split('Option<')[0]):
                    vals.append(NONE)
                elif re.search(r'(^|::)String$', ft):
                    vals.append(Str([], 0, 0))
                elif re.search(r'HashMap<.*String,.*String,?>$', ft):
                    vals.append(AttrMapTok(z3.IntVal(0)))
                elif re.search(r'(^|::)Vec<u8>$', ft) or re.search(r'(^|::)Bytes$', ft):
                    vals.append(Opaque('default:%s' % ft))
                elif re.search(r'(^|::)Vec<', ft):
                    vals.append(Seq.empty())
                elif ft in INT_TYPES:
                    vals.append(mk_int(0, ft))
                elif ft == 'bool':
                    vals.append(bool_s(z3.BoolVal(False)))
                else:
                    vals.append(Opaque('default:%s' % ft))
            return Agg(ty, vals)
        return NotImplemented

    @M.reg('<Fn>::call', '<FnMut>::call_mut', '<FnOnce>::call_once')
    def fn_call(ip, pc, args, dt):
        # a generic `impl Fn(..)` parameter called through the trait: callee value + tuple of arguments
        f, tup = args[0], args[1]
        actual = list(tup.fields) if isinstance(tup, Agg) else [tup]
        r = yield from ip.call_closure(f, actual)
        return r

    @M.reg('i32::unsigned_abs', 'i64::unsigned_abs', 'i16::unsigned_abs', 'i8::unsigned_abs', 'isize::unsigned_abs', '::unsigned_abs')
    def unsigned_abs(ip, pc, args, dt):
        x = args[0]
        uty = {'i8': 'u8', 'i16': 'u16', 'i32': 'u32', 'i64': 'u64', 'isize': 'usize', 'i128': 'u128'}.get(x.ty)
        if uty is None:
            raise Unsupported('unsigned_abs of %r' % (x,))
        return S(z3.If(x.t < 0, -x.t, x.t), uty)

    @M.reg('mem::take')
    def mem_take(ip, pc, args, dt):
        loc = args[0].loc
        old = read_loc(loc)
        i = pc['raw'].index('take::<') + 5
        r = yield from ip.call('<%s as Default>::default' % _generic_arg(pc['raw'][i:]), [], dt)
        write_loc(loc, r)
        return old

    @M.reg('mem::replace')
    def mem_replace(ip, pc, args, dt):
        loc = args[0].loc
        old = read_loc(loc)
        write_loc(loc, args[1])
        return old

    @M.reg('mem::swap')
    def mem_swap(ip, pc, args, dt):
        a, b = read_loc(args[0].loc), read_loc(args[1].loc)
        write_loc(args[0].loc, b)
        write_loc(args[1].loc, a)
        return UNIT

    @M.reg('must_use', 'hint::must_use', 'convert::identity', 'black_box')
    def identity(ip, pc, args, dt):
        return args[0]


def _is_ref_to_ref(v):
    return isinstance(v, Ref) and isinstance(read_loc(v.loc), Ref)


def _generic_arg(raw):
    i = raw.index('<')
    from mirparse import match_close
    return raw[i + 1:match_close(raw, i)]


def _result_ok_ty(dt):
    if not dt:
        return None
    from mirparse import match_close, split_top
    i = dt.find('<')
    if i < 0:
        return None
    inner = dt[i + 1:match_close(dt, i)]
    return split_top(inner)[0].strip()
