"""Kani/CBMC engine: overlays harness modules as cfg(kani) child modules on a scratch copy of /repo's
working tree and runs `cargo kani` per harness.  Verdicts: holds / violated / inconclusive."""
import os
import re
import subprocess
import sys
import time

HERE = os.path.dirname(os.path.abspath(__file__))
sys.path.insert(0, os.path.join(HERE, 'mirsmt'))
import snapshot  # noqa: E402

HARNESS_DIR = os.path.join(HERE, 'kani', 'harness')
# harness file -> source file it is appended to (child module sees private items)
TARGETS = {
    'pulled_message.rs': 'src/subscriptions/pulled_message.rs',
    'ack_id.rs': 'src/subscriptions/ack_id.rs',
    'topic_message.rs': 'src/topics/topic_message.rs',
    'paging.rs': 'src/paging/mod.rs',
    'flow_control.rs': 'src/subscriptions/flow_control.rs',
}


def prepare():
    dst = os.path.join(snapshot.SCRATCH, 'kani-src')
    os.makedirs(dst, exist_ok=True)
    subprocess.run(['rsync', '-rlpgoD', '--checksum', '--delete', '--exclude', 'target', '--exclude', '.git', snapshot.REPO + '/', dst + '/'], check=True)
    snapshot.force_rebuild_if_changed(dst)
    for hf, tgt in TARGETS.items():
        p = os.path.join(dst, tgt)
        if not os.path.exists(p):
            continue
        with open(p, 'a') as f:
            f.write('\n#[cfg(kani)]\n#[path = "%s"]\nmod verif_kani;\n' % os.path.join(HARNESS_DIR, hf))
    return dst


def run_harness(h, cfg):
    """h: dict(id, harness, desc, timeout_s)"""
    t0 = time.time()
    out = {'id': h['id'], 'desc': h['desc'], 'harness': h['harness'], 'verdict': 'inconclusive', 'wall_s': 0.0, 'checks': 0}
    with snapshot.Lock('kani.lock'):
        try:
            src = prepare()
        except Exception as e:
            out['detail'] = 'snapshot failed: %s' % e
            return out
        env = dict(os.environ)
        env['CARGO_NET_OFFLINE'] = 'true'
        env.pop('RUSTUP_TOOLCHAIN', None)
        tdir = os.path.join(snapshot.CACHE, 'target-kani')
        cmd = ['cargo', 'kani', '-Z', 'stubbing', '--target-dir', tdir, '--harness', h['harness']]
        limit = h.get('timeout_s', 600 if cfg.get('tier') == 'quick' else 2400)
        try:
            r = subprocess.run('ulimit -v 25165824; exec ' + ' '.join(cmd), shell=True, cwd=src, env=env, capture_output=True, text=True,
                               timeout=limit, start_new_session=True)
            txt = r.stdout + r.stderr
        except subprocess.TimeoutExpired as e:
            out['detail'] = 'timeout after %ds' % limit
            out['wall_s'] = round(time.time() - t0, 1)
            subprocess.run(['pkill', '-f', 'cbmc.*' + re.escape(h['harness'])])
            return out
    out['wall_s'] = round(time.time() - t0, 1)
    m = re.search(r'\*\* (\d+) of (\d+) failed', txt)
    out['checks'] = int(m.group(2)) if m else 0
    out['failed_checks'] = int(m.group(1)) if m else None
    covers = re.findall(r'\*\* (\d+) of (\d+) cover properties satisfied', txt)
    out['covers'] = covers[0] if covers else None
    if 'VERIFICATION:- SUCCESSFUL' in txt:
        unsat_cov = covers and covers[0][0] != covers[0][1]
        out['verdict'] = 'inconclusive' if unsat_cov else 'holds'
        if unsat_cov:
            out['detail'] = 'vacuity: cover properties not all satisfiable'
    elif 'VERIFICATION:- FAILED' in txt:
        fails = re.findall(r'Failed Checks: (.*)', txt)
        unw = [f for f in fails if 'unwinding assertion' in f]
        if 'Status: ERROR' in txt or 'out of memory' in txt.lower():
            out['detail'] = 'CBMC error / out of memory'
        elif unw and len(unw) == len(fails):
            out['detail'] = 'unwinding bound too small: ' + unw[0]
        else:
            out['verdict'] = 'violated'
            out['detail'] = '; '.join(fails[:4])
            out['replay'] = {'status': 'kani-trace', 'path': _save_log(h, txt)}
    else:
        out['detail'] = 'no verdict: ' + txt[-600:].replace('\n', ' | ')
    return out


def _save_log(h, txt):
    d = os.path.join(os.environ.get('VERIF_EVIDENCE_DIR') or os.path.join(os.path.dirname(HERE), 'evidence'), 'replays')
    os.makedirs(d, exist_ok=True)
    p = os.path.join(d, 'kani-%s.log' % h['harness'])
    with open(p, 'w') as f:
        f.write(txt[-20000:])
    return p
