// Native replay driver (overlaid on the scratch snapshot as tests/verif_replay.rs).
// Executes a JSON script (path in $VERIF_SCRIPT) against the real build through the public API
// and prints one `VERIF-OBS <json>` line per observation.
use bytes::Bytes;
use deltio::subscriptions::subscription_manager::SubscriptionManager;
use deltio::subscriptions::*;
use deltio::topics::topic_manager::TopicManager;
use deltio::topics::*;
use ::futures::FutureExt;
use serde_json::{json, Value};
use std::collections::HashMap;
use std::sync::Arc;
use std::time::Duration;

fn obs(v: Value) {
    println!("VERIF-OBS {}", v);
}

fn bytes_of(v: &Value) -> Vec<u8> {
    v.as_array().unwrap().iter().map(|b| b.as_u64().unwrap() as u8).collect()
}

fn data_id(m: &PulledMessage) -> u64 {
    let mut a = [0u8; 8];
    a.copy_from_slice(&m.message().data[..8]);
    u64::from_le_bytes(a)
}

#[tokio::test(start_paused = true)]
async fn verif_replay() {
    let path = match std::env::var("VERIF_SCRIPT") {
        Ok(p) => p,
        Err(_) => return,
    };
    let script: Value = serde_json::from_str(&std::fs::read_to_string(path).unwrap()).unwrap();
    let topic_manager = Arc::new(TopicManager::new());
    let subscription_manager = Arc::new(SubscriptionManager::new(Default::default()));
    let mut topics: HashMap<String, Arc<Topic>> = HashMap::new();
    let mut subs: HashMap<String, Arc<Subscription>> = HashMap::new();
    let mut next_data: u64 = 1;
    let mut deadlines: HashMap<u64, tokio::time::Instant> = HashMap::new();
    let t_start = tokio::time::Instant::now();
    for op in script["ops"].as_array().unwrap() {
        let name = op["op"].as_str().unwrap();
        match name {
            "parse_name" => {
                let raw = bytes_of(&op["bytes"]);
                let s = match String::from_utf8(raw) {
                    Ok(s) => s,
                    Err(_) => { obs(json!({"op": name, "invalid_utf8": true})); continue; }
                };
                let kind = op["kind"].as_str().unwrap();
                let r = if kind == "topic" {
                    TopicName::try_parse(&s).map(|n| {
                        let echo = n.to_string();
                        let again = TopicName::try_parse(&echo);
                        (echo.clone(), again.is_some(), again.as_ref() == Some(&n), format!("{:?}", n))
                    })
                } else {
                    SubscriptionName::try_parse(&s).map(|n| {
                        let echo = n.to_string();
                        let again = SubscriptionName::try_parse(&echo);
                        (echo.clone(), again.is_some(), again.as_ref() == Some(&n), format!("{:?}", n))
                    })
                };
                match r {
                    None => obs(json!({"op": name, "accepted": false, "input": s})),
                    Some((echo, ea, es, dbg)) => obs(json!({"op": name, "accepted": true, "input": s, "echo": echo,
                        "echo_accepted": ea, "echo_same": es, "parsed": dbg})),
                }
            }
            "create_topic" => {
                let n = op["name"].as_str().unwrap();
                let t = topic_manager.create_topic(TopicName::try_parse(n).unwrap());
                obs(json!({"op": name, "ok": t.is_ok()}));
                if let Ok(t) = t { topics.insert(n.to_string(), t); }
            }
            "create_subscription" => {
                let n = op["name"].as_str().unwrap();
                let t = topics.get(op["topic"].as_str().unwrap()).unwrap().clone();
                let secs = op["ack_deadline_s"].as_u64().unwrap_or(10);
                let info = SubscriptionInfo::new(SubscriptionName::try_parse(n).unwrap(), Duration::from_secs(secs), None);
                let s = subscription_manager.create_subscription(info, t).await;
                obs(json!({"op": name, "ok": s.is_ok()}));
                if let Ok(s) = s { subs.insert(n.to_string(), s); }
            }
            "delete_topic" => {
                // delete the topic and drop every strong handle the script holds (subscriptions keep a Weak only)
                let n = op["name"].as_str().unwrap();
                let t = topics.remove(n).unwrap();
                let r = t.delete().await;
                drop(t);
                for _ in 0..8 { tokio::task::yield_now().await; }
                obs(json!({"op": name, "ok": r.is_ok()}));
            }
            "publish" => {
                let t = topics.get(op["topic"].as_str().unwrap()).unwrap();
                let n = op["count"].as_u64().unwrap();
                let mut msgs = vec![];
                let mut ids = vec![];
                for _ in 0..n {
                    msgs.push(TopicMessage::new(Bytes::from(next_data.to_le_bytes().to_vec()), None));
                    ids.push(next_data);
                    next_data += 1;
                }
                let r = t.publish_messages(msgs).await;
                obs(json!({"op": name, "ok": r.is_ok(), "data_ids": ids,
                    "message_ids": r.map(|r| r.message_ids.iter().map(|m| m.value).collect::<Vec<_>>()).unwrap_or_default()}));
            }
            "pull" => {
                let s = subs.get(op["sub"].as_str().unwrap()).unwrap();
                let max = op["max"].as_u64().unwrap() as u16;
                let r = s.pull_messages(max).await.unwrap();
                for m in r.iter() {
                    deadlines.insert(m.ack_id().to_string().parse::<u64>().unwrap(), m.deadline().time());
                }
                obs(json!({"op": name, "messages": r.iter().map(|m| json!({"data": data_id(m), "ack": m.ack_id().to_string(),
                    "message_id": m.message().id.value,
                    "deadline_ms": m.deadline().time().duration_since(t_start).as_millis() as u64})).collect::<Vec<_>>() }));
            }
            "ack" => {
                let s = subs.get(op["sub"].as_str().unwrap()).unwrap();
                let ids = op["ids"].as_array().unwrap().iter().map(|v| AckId::new(v.as_u64().unwrap())).collect();
                let r = s.acknowledge_messages(ids).await;
                obs(json!({"op": name, "ok": r.is_ok()}));
            }
            "modify" => {
                let s = subs.get(op["sub"].as_str().unwrap()).unwrap();
                let now = tokio::time::Instant::now();
                let mods = op["mods"].as_array().unwrap().iter().map(|m| {
                    let idv = m["id"].as_u64().unwrap();
                    let id = AckId::new(idv);
                    match m["secs"].as_u64() {
                        Some(0) | None => DeadlineModification::nack(id),
                        Some(n) => {
                            let d = AckDeadline::new(&(now + Duration::from_secs(n)));
                            deadlines.insert(idv, d.time());
                            DeadlineModification::new(id, d)
                        }
                    }
                }).collect();
                let r = s.modify_ack_deadlines(mods).await;
                obs(json!({"op": name, "ok": r.is_ok()}));
            }
            "advance_ms" => {
                let ms = op["ms"].as_u64().unwrap();
                tokio::time::advance(Duration::from_millis(ms)).await;
                // let the actors run
                for _ in 0..20 { tokio::task::yield_now().await; }
                obs(json!({"op": name}));
            }
            "advance_abs_ms" => {
                let target = t_start + Duration::from_millis(op["ms"].as_u64().unwrap());
                let now = tokio::time::Instant::now();
                if target > now {
                    tokio::time::advance(target - now).await;
                }
                for _ in 0..20 { tokio::task::yield_now().await; }
                obs(json!({"op": name}));
            }
            "advance_to_deadline" => {
                // move the paused clock exactly to the recorded deadline of a delivery (+ offset_ms, may be negative)
                let id = op["ack"].as_u64().unwrap();
                let off = op["offset_ms"].as_i64().unwrap_or(0);
                let target = deadlines[&id];
                let now = tokio::time::Instant::now();
                let target = if off >= 0 { target + Duration::from_millis(off as u64) } else { target - Duration::from_millis((-off) as u64) };
                if target > now {
                    tokio::time::advance(target - now).await;
                }
                for _ in 0..20 { tokio::task::yield_now().await; }
                obs(json!({"op": name}));
            }
            "stats" => {
                let s = subs.get(op["sub"].as_str().unwrap()).unwrap();
                let st = s.get_stats().await.unwrap();
                obs(json!({"op": name, "outstanding": st.outstanding_messages_count, "backlog": st.backlog_messages_count}));
            }
            "signal" => {
                // is a consumer signal taken *now* already satisfied (a stored permit)?
                let s = subs.get(op["sub"].as_str().unwrap()).unwrap();
                let sig = s.messages_available();
                let ready = sig.now_or_never().is_some();
                obs(json!({"op": name, "ready": ready}));
            }
            "list_topic_subscriptions" => {
                let t = topics.get(op["topic"].as_str().unwrap()).unwrap();
                let page = t.list_subscriptions(deltio::paging::Paging::new(1000, None)).await.unwrap();
                obs(json!({"op": name, "names": page.subscriptions.iter().map(|s| s.name.to_string()).collect::<Vec<_>>() }));
            }
            other => panic!("unknown op {}", other),
        }
    }
}

// Library-level scenarios selected by $VERIF_LIB_SCENARIO.
#[tokio::test]
async fn verif_lib_scenario() {
    let scenario = match std::env::var("VERIF_LIB_SCENARIO") {
        Ok(s) => s,
        Err(_) => return,
    };
    match scenario.as_str() {
        "create_subscription_abandoned" => create_subscription_abandoned().await,
        "actor_deadlock" => actor_deadlock().await,
        other => panic!("unknown scenario {}", other),
    }
}

// F5: CreateSubscription abandoned while the attach request cannot be enqueued (topic mailbox full).
async fn create_subscription_abandoned() {
    let topic_manager = Arc::new(TopicManager::new());
    let subscription_manager = Arc::new(SubscriptionManager::new(Default::default()));
    let topic = topic_manager.create_topic(TopicName::try_parse("projects/p/topics/t").unwrap()).unwrap();
    // Saturate the topic's mailbox (capacity 16): on this single-threaded runtime the topic actor does not
    // run until we yield, so 16 requests polled once each fill it.
    let mut fillers = Vec::new();
    for _ in 0..16 {
        let t = topic.clone();
        let mut f = Box::pin(async move { t.list_subscriptions(deltio::paging::Paging::new(10, None)).await.map(|p| p.subscriptions.len()) });
        let polled = ::futures::poll!(f.as_mut());
        assert!(polled.is_pending());
        fillers.push(f);
    }
    // One poll of create_subscription, then the caller goes away.
    let name = SubscriptionName::try_parse("projects/p/subscriptions/s").unwrap();
    let info = SubscriptionInfo::new(name.clone(), Duration::from_secs(10), None);
    let abandoned = subscription_manager.create_subscription(info, topic.clone()).now_or_never();
    // Let every actor run and every filler complete.
    for f in fillers.iter_mut() {
        let _ = f.as_mut().await;
    }
    for _ in 0..50 { tokio::task::yield_now().await; }
    let registered = subscription_manager.get_subscription(&name).is_ok();
    let attached: Vec<String> = topic.list_subscriptions(deltio::paging::Paging::new(10, None)).await.unwrap()
        .subscriptions.iter().map(|s| s.name.to_string()).collect();
    // does a publish reach it?
    topic.publish_messages(vec![TopicMessage::new(Bytes::from("x"), None)]).await.unwrap();
    for _ in 0..50 { tokio::task::yield_now().await; }
    let backlog = match subscription_manager.get_subscription(&name) {
        Ok(s) => s.get_stats().await.map(|st| st.backlog_messages_count as i64).unwrap_or(-1),
        Err(_) => -1,
    };
    obs(json!({"scenario": "create_subscription_abandoned", "completed_in_one_poll": abandoned.is_some(),
               "registered": registered, "attached": attached, "backlog_after_publish": backlog}));
}


// C07: topic actor (inside Publish, posting to a full subscription mailbox) and subscription actor (inside Delete,
// waiting for the topic) wait for each other.
async fn actor_deadlock() {
    let topic_manager = Arc::new(TopicManager::new());
    let subscription_manager = Arc::new(SubscriptionManager::new(Default::default()));
    let topic = topic_manager.create_topic(TopicName::try_parse("projects/p/topics/t").unwrap()).unwrap();
    let name = SubscriptionName::try_parse("projects/p/subscriptions/s").unwrap();
    let sub = subscription_manager
        .create_subscription(SubscriptionInfo::new(name.clone(), Duration::from_secs(10), None), topic.clone())
        .await
        .unwrap();
    // 1. the Delete request is the first thing in the subscription's mailbox (no actor has run since)
    let s2 = sub.clone();
    let mut del = Box::pin(async move { s2.delete().await.is_ok() });
    assert!(::futures::poll!(del.as_mut()).is_pending());
    // 2. a burst of publishes larger than both mailboxes (16 each)
    let mut pubs = Vec::new();
    for _ in 0..40 {
        let t = topic.clone();
        let mut f = Box::pin(async move { t.publish_messages(vec![TopicMessage::new(Bytes::from("x"), None)]).await.is_ok() });
        let _ = ::futures::poll!(f.as_mut());
        pubs.push(f);
    }
    // 3. let everything run, all client calls driven concurrently
    let all = async {
        let (d, oks) = ::futures::future::join(del, ::futures::future::join_all(pubs)).await;
        (d, oks.iter().filter(|b| **b).count())
    };
    let r = tokio::time::timeout(Duration::from_secs(3), all).await;
    obs(json!({"scenario": "actor_deadlock", "finished": r.is_ok(), "detail": format!("{:?}", r.ok())}));
}
