// Native replay driver at the gRPC surface (overlaid as tests/verif_grpc.rs): scenarios selected by
// $VERIF_SCENARIO, observations printed as `VERIF-OBS <json>`.
use crate::push_server::TestPushServer;
use deltio::pubsub_proto::*;
use deltio::subscriptions::SubscriptionName;
use deltio::topics::TopicName;
use serde_json::json;
use std::collections::HashMap;
use std::time::Duration;
use test_helpers::*;

pub mod push_server;
pub mod test_helpers;

fn obs(v: serde_json::Value) {
    println!("VERIF-OBS {}", v);
}

#[tokio::test]
async fn verif_grpc() {
    let scenario = match std::env::var("VERIF_SCENARIO") {
        Ok(s) => s,
        Err(_) => return,
    };
    match scenario.as_str() {
        "push_attributes" => push_attributes().await,
        "streaming_bad_modify_after_ack" => streaming_bad_modify_after_ack().await,
        "delete_releases_streaming_pull" => delete_releases(true).await,
        "delete_releases_blocked_pull" => delete_releases(false).await,
        s if s.starts_with("api_parse_name:") => api_parse_name(s).await,
        other => panic!("unknown scenario {}", other),
    }
}

// F3: does the push payload carry the published attributes?
async fn push_attributes() {
    let mut server = TestHost::start().await.unwrap();
    let mut push_server = TestPushServer::start().await.unwrap();
    let topic_name = TopicName::new("test", "topic");
    server.create_topic_with_name(&topic_name).await;
    let subscription_name = SubscriptionName::new("test", "subscription");
    server
        .subscriber
        .create_subscription(Subscription {
            push_config: Some(PushConfig { attributes: Default::default(), authentication_method: None, push_endpoint: push_server.url() }),
            ..map_to_subscription_resource(&subscription_name, &topic_name)
        })
        .await
        .unwrap();
    let mut attrs = HashMap::new();
    attrs.insert("k".to_string(), "v".to_string());
    server
        .publisher
        .publish(PublishRequest {
            topic: topic_name.to_string(),
            messages: vec![PubsubMessage { data: b"Hello".to_vec(), attributes: attrs.clone(), ..Default::default() }],
        })
        .await
        .unwrap();
    tokio::time::pause();
    tokio::time::advance(Duration::from_secs(1)).await;
    tokio::time::resume();
    let payload = push_server.next().await.unwrap();
    obs(json!({"scenario": "push_attributes", "published": attrs, "pushed": payload.message.attributes.clone()}));
    payload.succeed();
}

// F4: a StreamingPull control message whose modification list is malformed but whose ack list is fine:
// is the ack applied although the request is rejected?
async fn streaming_bad_modify_after_ack() {
    let mut server = TestHost::start().await.unwrap();
    let topic_name = TopicName::new("test", "topic");
    server.create_topic_with_name(&topic_name).await;
    let subscription_name = SubscriptionName::new("test", "subscription");
    server.create_subscription_with_name(&topic_name, &subscription_name).await;
    server.publish_text_messages(&topic_name, vec!["one".into(), "two".into()]).await;
    let (sender, mut inbound) = server.streaming_pull(&subscription_name).await;
    let first = inbound.message().await.unwrap().unwrap();
    let ack_ids: Vec<String> = first.received_messages.iter().map(|m| m.ack_id.clone()).collect();
    // one request: ack the first message, and a malformed modification
    sender
        .send(StreamingPullRequest {
            ack_ids: vec![ack_ids[0].clone()],
            modify_deadline_ack_ids: vec!["not-a-number".into()],
            modify_deadline_seconds: vec![5],
            ..Default::default()
        })
        .await
        .unwrap();
    let status = loop {
        match inbound.message().await {
            Err(s) => break format!("{:?}", s.code()),
            Ok(None) => break "closed".to_string(),
            Ok(Some(_)) => continue,
        }
    };
    // after the rejected request: let the deadline pass and see what is still deliverable
    tokio::time::pause();
    tokio::time::advance(Duration::from_secs(11)).await;
    tokio::time::resume();
    #[allow(deprecated)]
    let pulled = server
        .subscriber
        .pull(PullRequest { subscription: subscription_name.to_string(), max_messages: 10, return_immediately: true })
        .await
        .unwrap();
    let texts: Vec<String> = pulled.get_ref().received_messages.iter()
        .map(|m| String::from_utf8(m.message.as_ref().unwrap().data.clone()).unwrap()).collect();
    obs(json!({"scenario": "streaming_bad_modify_after_ack", "status": status, "delivered_first": first.received_messages.len(),
               "still_deliverable": texts}));
}


// C12: open a StreamingPull / a blocked Pull on an empty subscription, delete the subscription, and see whether the
// consumer is released (NOT_FOUND / an error status) within 2 s.  The outcome depends on the server's randomised
// select order and on task scheduling, so the scenario is repeated.
async fn delete_releases(streaming: bool) {
    let rounds = 60;
    let mut hangs = 0;
    let mut released = 0;
    let mut statuses: Vec<String> = vec![];
    for i in 0..rounds {
        let mut server = TestHost::start().await.unwrap();
        let topic_name = TopicName::new("test", &format!("topic{}", i));
        server.create_topic_with_name(&topic_name).await;
        let subscription_name = SubscriptionName::new("test", &format!("subscription{}", i));
        server.create_subscription_with_name(&topic_name, &subscription_name).await;
        if streaming {
            let (_sender, mut inbound) = server.streaming_pull(&subscription_name).await;
            tokio::time::sleep(Duration::from_millis(20)).await;
            server.subscriber.delete_subscription(DeleteSubscriptionRequest { subscription: subscription_name.to_string() }).await.unwrap();
            let r = tokio::time::timeout(Duration::from_secs(2), async {
                loop {
                    match inbound.message().await {
                        Err(s) => break format!("{:?}", s.code()),
                        Ok(None) => break "closed-without-status".to_string(),
                        Ok(Some(_)) => continue,
                    }
                }
            }).await;
            match r {
                Ok(st) => { released += 1; if !statuses.contains(&st) { statuses.push(st); } }
                Err(_) => hangs += 1,
            }
        } else {
            let mut client = server.subscriber.clone();
            let name = subscription_name.to_string();
            #[allow(deprecated)]
            let mut pull = tokio::spawn(async move {
                client.pull(PullRequest { subscription: name, max_messages: 10, return_immediately: false }).await
            });
            tokio::time::sleep(Duration::from_millis(20)).await;
            server.subscriber.delete_subscription(DeleteSubscriptionRequest { subscription: subscription_name.to_string() }).await.unwrap();
            let outcome = tokio::time::timeout(Duration::from_secs(2), &mut pull).await;
            if outcome.is_err() {
                pull.abort();
            }
            match outcome {
                Ok(Ok(Err(s))) => { released += 1; let st = format!("{:?}", s.code()); if !statuses.contains(&st) { statuses.push(st); } }
                Ok(Ok(Ok(resp))) => { released += 1; let st = format!("ok-{}", resp.get_ref().received_messages.len()); if !statuses.contains(&st) { statuses.push(st); } }
                Ok(Err(_)) => { released += 1; }
                Err(_) => hangs += 1,
            }
        }
        if streaming {
            server.dispose().await;
        } else {
            std::mem::forget(server); // a still-blocked Pull would make the graceful shutdown wait for it
        }
    }
    obs(json!({"scenario": if streaming { "delete_releases_streaming_pull" } else { "delete_releases_blocked_pull" },
               "rounds": rounds, "hangs": hangs, "released": released, "statuses": statuses}));
}


// C18 at the API surface: is this string accepted as a topic / subscription name by the handlers, and what does it denote?
// scenario = api_parse_name:<kind>:<hex of the utf-8 bytes>
async fn api_parse_name(scenario: &str) {
    let mut parts = scenario.splitn(3, ':');
    let _ = parts.next();
    let kind = parts.next().unwrap().to_string();
    let hex = parts.next().unwrap_or("");
    let bytes: Vec<u8> = (0..hex.len() / 2).map(|i| u8::from_str_radix(&hex[2 * i..2 * i + 2], 16).unwrap()).collect();
    let raw = match String::from_utf8(bytes) {
        Ok(s) => s,
        Err(_) => { obs(json!({"scenario": "api_parse_name", "invalid_utf8": true})); return; }
    };
    let mut server = TestHost::start().await.unwrap();
    if kind == "topic" {
        match server.publisher.create_topic(Topic { name: raw.clone(), ..Default::default() }).await {
            Ok(resp) => obs(json!({"scenario": "api_parse_name", "kind": kind, "input": raw, "accepted": true, "echo": resp.into_inner().name})),
            Err(st) => obs(json!({"scenario": "api_parse_name", "kind": kind, "input": raw, "accepted": st.code() != tonic::Code::InvalidArgument,
                                   "code": format!("{:?}", st.code())})),
        }
    } else {
        match server.subscriber.get_subscription(GetSubscriptionRequest { subscription: raw.clone() }).await {
            Ok(resp) => obs(json!({"scenario": "api_parse_name", "kind": kind, "input": raw, "accepted": true, "echo": resp.into_inner().name})),
            Err(st) => obs(json!({"scenario": "api_parse_name", "kind": kind, "input": raw, "accepted": st.code() != tonic::Code::InvalidArgument,
                                   "code": format!("{:?}", st.code())})),
        }
    }
}
