"""Judges: decide from the real build's observations whether a counterexample reproduced.
Each compares the observations with an independent reference (regex / queue model)."""
import re


def judge_names(req, rr):
    kind = req['kind']
    seg = b'/topics/' if kind == 'topic' else b'/subscriptions/'
    for o in rr['obs']:
        if o.get('op') != 'parse_name':
            continue
        if not o.get('accepted'):
            return False, 'the real parser rejects the input'
        s = o['input'].encode()
        m = re.fullmatch(rb'projects/([^/]+)' + re.escape(seg) + rb'(.+)', s, re.S)
        if m is None:
            return True, 'accepted %r which is not projects/<P>%s<ID> (parsed as %s)' % (o['input'], seg.decode(), o['parsed'])
        if not o['echo_accepted'] or not o['echo_same']:
            return True, 'accepted %r; echoed %r is %s' % (o['input'], o['echo'], 'rejected' if not o['echo_accepted'] else 'a different resource')
        want = b'projects/' + m.group(1) + seg + m.group(2).strip(b'/')
        if o['echo'].encode() != want:
            return True, ('accepted %r but it denotes %r: project or ID are not the text of the name (canonical form would be %r), so names that differ '
                          'can denote one resource' % (o['input'], o['echo'], want.decode('utf-8', 'replace')))
        return False, 'accepted, well-formed and echo round-trips'
    return False, 'no observation (exit %s) %s' % (rr['exit'], rr['tail'][-300:])


def judge_api_names(req, rr):
    kind = req['kind']
    seg = b'/topics/' if kind == 'topic' else b'/subscriptions/'
    for o in rr['obs']:
        if o.get('scenario') != 'api_parse_name':
            continue
        if o.get('invalid_utf8'):
            return False, 'not a string'
        if not o.get('accepted'):
            return False, 'the server rejects the name with INVALID_ARGUMENT'
        s = o['input'].encode()
        m = re.fullmatch(rb'projects/([^/]+)' + re.escape(seg) + rb'(.+)', s, re.S)
        if m is None:
            return True, 'the server accepts %r (answer: %s), which is not projects/<P>%s<ID>' % (o['input'], o.get('echo') or o.get('code'), seg.decode())
        want = b'projects/' + m.group(1) + seg + m.group(2).strip(b'/')
        if o.get('echo') is not None and o['echo'].encode() != want:
            return True, 'the server accepts %r as %r (canonical form would be %r)' % (o['input'], o['echo'], want.decode('utf-8', 'replace'))
        return False, 'accepted and well-formed'
    return False, 'no observation (exit %s) %s' % (rr['exit'], rr['tail'][-300:])


def judge_push_attributes(req, rr):
    for o in rr['obs']:
        if o.get('scenario') == 'push_attributes':
            if o['pushed'] != o['published']:
                return True, 'published attributes %r, push payload carries %r' % (o['published'], o['pushed'])
            return False, 'push payload carries the published attributes'
    return False, 'no observation (exit %s) %s' % (rr['exit'], rr['tail'][-300:])


def judge_streaming_bad_modify(req, rr):
    for o in rr['obs']:
        if o.get('scenario') == 'streaming_bad_modify_after_ack':
            # the request was rejected (stream ended with an error): nothing of it may have been applied,
            # so both messages must still be deliverable after the deadline
            if sorted(o['still_deliverable']) != ['one', 'two']:
                return True, 'request rejected with %s but its ack was applied: still deliverable %r' % (o['status'], o['still_deliverable'])
            return False, 'rejected request changed nothing (%s)' % o['status']
    return False, 'no observation (exit %s) %s' % (rr['exit'], rr['tail'][-300:])


from actor_replay import judge_actor_script


def judge_half_created(req, rr):
    for o in rr['obs']:
        if o.get('scenario') == 'create_subscription_abandoned':
            if o['registered'] and not o['attached']:
                return True, 'after abandoning CreateSubscription at a full topic mailbox the subscription is registered but not attached to its topic (a publish leaves its backlog at %s)' % o['backlog_after_publish']
            return False, 'all-or-nothing: registered=%s attached=%s' % (o['registered'], o['attached'])
    return False, 'no observation (exit %s) %s' % (rr['exit'], rr['tail'][-300:])

def judge_delete_releases(req, rr):
    for o in rr['obs']:
        if o.get('scenario') == req['scenario']:
            bad = [s for s in o['statuses'] if s.startswith('ok-') or s == 'closed-without-status']
            if o['hangs'] > 0 or bad:
                return True, 'after DeleteSubscription the waiting consumer was not released in %d of %d rounds (2 s limit); outcomes of the others: %s' % (o['hangs'], o['rounds'], o['statuses'])
            return False, 'released in all %d rounds with %s' % (o['rounds'], o['statuses'])
    return False, 'no observation (exit %s) %s' % (rr['exit'], rr['tail'][-300:])


def judge_actor_deadlock(req, rr):
    for o in rr['obs']:
        if o.get('scenario') == 'actor_deadlock':
            if not o['finished']:
                return True, 'DeleteSubscription issued just before a burst of 40 concurrent Publish calls: neither the delete nor the publishes complete within 3 s (topic actor and subscription actor wait for each other)'
            return False, 'all requests completed: %s' % o['detail']
    return False, 'no observation (exit %s) %s' % (rr['exit'], rr['tail'][-300:])


JUDGES = {'actor_script': judge_actor_script, 'actor_deadlock': judge_actor_deadlock, 'delete_releases': judge_delete_releases, 'half_created': judge_half_created, 'names': judge_names, 'api_names': judge_api_names, 'push_attributes': judge_push_attributes, 'streaming_bad_modify': judge_streaming_bad_modify}
