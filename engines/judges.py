"""Judges: decide from the real build's observations whether a counterexample reproduced.
Each compares the observations with an independent reference (regex / queue model)."""
import re


def judge_names(req, rr):
    kind = req['kind']
    seg = b'/topics/' if kind == 'topic' else b'/subscriptions/'
    for o in rr['obs']:
        if o.get('op') != 'parse_name':
            continue
        if not o.get('accepted'):
            return False, 'the real parser rejects the input'
        s = o['input'].encode()
        m = re.fullmatch(rb'projects/([^/]+)' + re.escape(seg) + rb'(.+)', s, re.S)
        if m is None:
            return True, 'accepted %r which is not projects/<P>%s<ID> (parsed as %s)' % (o['input'], seg.decode(), o['parsed'])
        if not o['echo_accepted'] or not o['echo_same']:
            return True, 'accepted %r; echoed %r is %s' % (o['input'], o['echo'], 'rejected' if not o['echo_accepted'] else 'a different resource')
        return False, 'accepted, well-formed and echo round-trips'
    return False, 'no observation (exit %s) %s' % (rr['exit'], rr['tail'][-300:])


JUDGES = {'names': judge_names}
