"""Counterexample replay against the real build, and known-finding matching."""
import json
import os
import re
import sys

HERE = os.path.dirname(os.path.abspath(__file__))
VERIF = os.path.dirname(HERE)
REPLAYS = os.path.join(os.environ.get('VERIF_EVIDENCE_DIR') or os.path.join(VERIF, 'evidence'), 'replays')


def replay_violation(pid, res, v, mod, cfg):
    os.makedirs(REPLAYS, exist_ok=True)
    n = 0
    while True:
        path = os.path.join(REPLAYS, '%s-%s-%d.json' % (pid, re.sub(r'[^A-Za-z0-9]+', '_', res.id), n))
        if not os.path.exists(path) or n > 50:
            break
        n += 1
    doc = {'property': pid, 'obligation': res.id, 'label': v['label'], 'what': v['what'],
           'info': v.get('info', {}), 'decisions': v.get('decisions')}
    out = {'status': 'model-only', 'path': path}
    native = getattr(mod, 'native_replay', None)
    ob_native = getattr(getattr(res, 'ob', None), 'native_replay', None)
    if native is not None or ob_native is not None:
        try:
            import native_replay
            r = ob_native(v) if ob_native is not None else None
            if r is None and native is not None:
                r = native(res.id, v)
            if r is not None:
                rr = native_replay.run(r, cfg)
                doc['native'] = rr
                out['status'] = 'reproduced' if rr['reproduced'] else 'not-reproduced'
                out['detail'] = rr.get('detail', '')
        except Exception as e:  # a broken replay driver must not hide the counterexample
            doc['native_error'] = str(e)
    doc['status'] = out['status']
    with open(path, 'w') as f:
        json.dump(doc, f, indent=1, default=str)
    return out


def match_known(known, ob_id, v, rep):
    for k in known:
        if k.get('obligation') != ob_id:
            continue
        cl = k.get('classifier')
        info = v.get('info', {})
        if cl is None or info.get('class') == cl or v.get('label') == cl:
            return k
    return None


def replay_file(path):
    doc = json.load(open(path))
    print(json.dumps(doc, indent=1)[:4000])
    if 'native' in doc:
        import native_replay
        rr = native_replay.run(doc['native']['request'], {'tier': 'quick'})
        print('reproduced' if rr['reproduced'] else 'NOT reproduced', rr.get('detail', ''))
        return 1 if rr['reproduced'] else 2
    print('model-only counterexample (no native driver recorded)')
    return 1
